------------------------------ MODULE Trace_Num ------------------------------
(***************************************************************************)
(* Trace validation for the numeric properties C06, C07, C08.             *)
(*                                                                         *)
(* The trace (ndjson, path in env TRACE) is a sequence of events recorded  *)
(* by the harness from the real interpreter, one per evaluated expression: *)
(*   ev = "bin"   op, a, b          result of  a op b                      *)
(*   ev = "un"    op, a             result of  op(a)                       *)
(*   ev = "fact"  a, fs             factorize(a) = list of [p, e]          *)
(*   ev = "mixed" op, a, b, aux     a op b at float level and, from the    *)
(*                                  same session, float(a) op float(b)     *)
(*   ev = "sort"  xs, perm          the permutation sort produced          *)
(* with  out  the outcome class and  r  the reported number.  The spec     *)
(* re-computes the expected result from the logged operands alone and      *)
(* compares.  A mismatch does not block the run: it is printed and the     *)
(* validator moves on, so one defect does not hide the rest of the trace.  *)
(***************************************************************************)
EXTENDS NumTower, Json, IOUtils, Sequences

Rec == ndJsonDeserialize(IOEnv.TRACE)

VARIABLE l
vars == <<l>>

Agrees(exp, ev) ==
    CASE exp.out = "unspec" -> TRUE
      [] exp.out = "throw" -> ev.out = "throw"
      [] exp.out = "ok" -> ev.out = "ok" /\ ev.r.k # "none" /\ SameNum(exp.r, ev.r)

Report(ev, exp) == PrintT("MISMATCH " \o ToJson([l |-> l, id |-> ev.id, exp |-> exp]))

(* float(x) for an exact x must be the correctly rounded double *)
FloatConvOk(ev) ==
    ev.out = "ok" /\ ev.r.k = "float" /\ CorrectlyRounded(ev.r.f, AsRat(ev.a))

(* a op b with one operand at float level and the other below: the result  *)
(* is a float, bit-identical to float(a) op float(b) evaluated in the same *)
(* session (logged as aux) -- "the operation carried out at that level on  *)
(* the converted operands"                                                 *)
MixedOk(ev) ==
    \/ ev.out # "ok" /\ ev.auxout = ev.out
    \/ /\ ev.out = "ok" /\ ev.auxout = "ok"
       /\ ev.r.k = "float" /\ ev.aux.k = "float"
       /\ ev.r.f = ev.aux.f

(* float plus, minus, times float on finite operands: correctly rounded exact result;          *)
(* float / % %% // float with a non-zero divisor: NumTower!FDivFamilyOk; with a zero divisor   *)
(* the result is some float (infinity / NaN by IEEE, not judged beyond its level)              *)
FBinOk(ev) ==
    LET x == FltToRat(ev.a.f)  y == FltToRat(ev.b.f)
    IN IF ev.op \in {"+", "-", "*"}
       THEN LET exact == CASE ev.op = "+" -> RatAdd(x, y) [] ev.op = "-" -> RatSub(x, y) [] ev.op = "*" -> RatMul(x, y)
            IN ev.out = "ok" /\ ev.r.k = "float" /\ RoundsTo(ev.r.f, exact)
       ELSE IF y.n.s = 0
       THEN \* a zero divisor: // and %% raise at every level (guard in the builtins), / and % give
            \* the IEEE infinity / NaN, judged as "some float"
            IF ev.op \in {"//", "%%"} THEN ev.out = "throw" ELSE ev.out = "ok" /\ ev.r.k = "float"
       ELSE /\ ev.out = "ok" /\ ev.r.k = "float"
            /\ FDivFamilyOk(ev.op, ev.r.f, x, y)

(* sort: perm is the permutation (1-based positions into xs) that the      *)
(* implementation produced; it must be THE stable sorting permutation:     *)
(* consecutive elements ordered, equal elements in original order.         *)
SortOk(ev) ==
    LET xs == ev.xs  p == ev.perm  n == Len(xs)
    IN IF \E i \in 1..n, j \in 1..n : i # j /\ NumCmp(xs[i], xs[j]) = 2 THEN ev.out = "throw"
       ELSE /\ ev.out = "ok" /\ Len(p) = n
            /\ \A i \in 1..n : \E j \in 1..n : p[j] = i
            /\ \A j \in 1..(n - 1) :
                 LET c == NumCmp(xs[p[j]], xs[p[j + 1]])
                 IN c < 0 \/ (c = 0 /\ p[j] < p[j + 1])

(* min / max of a list: the first minimal / maximal element (position logged) *)
ExtremumOk(ev) ==
    LET xs == ev.xs  n == Len(xs)
    IN IF n = 0 \/ \E i \in 1..n, j \in 1..n : i # j /\ NumCmp(xs[i], xs[j]) = 2 THEN ev.out = "throw"
       ELSE /\ ev.out = "ok"
            /\ LET want == CHOOSE i \in 1..n :
                              /\ \A j \in 1..n : IF ev.op = "min" THEN NumCmp(xs[j], xs[i]) >= 0
                                                                  ELSE NumCmp(xs[j], xs[i]) <= 0
                              /\ \A j \in 1..(i - 1) : NumCmp(xs[j], xs[i]) # 0
               IN SameNum(xs[want], ev.r)


(* vectors: an operator on vectors acts element-wise, scalars broadcast (la / lb = -1 for a   *)
(* scalar operand); different lengths are rejected.  items[i] is the outcome of the scalar    *)
(* application u[i] op v[i] evaluated on its own in the same session (those scalar results    *)
(* are themselves validated as bin / mixed events).                                           *)
VecOk(ev) ==
    IF ev.la >= 0 /\ ev.lb >= 0 /\ ev.la # ev.lb THEN ev.out = "throw"
    ELSE IF \E i \in 1..Len(ev.items) : ev.items[i].out # "ok" THEN ev.out # "ok" \/ Len(ev.items) = 0
    ELSE /\ ev.out = "ok" /\ Len(ev.r) = Len(ev.items)
         /\ \A i \in 1..Len(ev.items) : ev.items[i].r.k # "none" /\ SameNum(ev.items[i].r, ev.r[i])

(* sequences (lists, vectors) compare lexicographically by the element order; 2 = incomparable *)
RECURSIVE LexCmp(_, _, _)
LexCmp(xs, ys, i) ==
    IF i > Len(xs) /\ i > Len(ys) THEN 0
    ELSE IF i > Len(xs) THEN -1
    ELSE IF i > Len(ys) THEN 1
    ELSE LET c == NumCmp(xs[i], ys[i]) IN IF c # 0 THEN c ELSE LexCmp(xs, ys, i + 1)
SeqCmpExp(op, xs, ys) ==
    LET c == LexCmp(xs, ys, 1)
        eq == Len(xs) = Len(ys) /\ \A i \in 1..Len(xs) : NumEq(xs[i], ys[i])
    IN CASE op = "==" -> Ok(Bool(eq))
         [] op = "!=" -> Ok(Bool(~eq))
         [] c = 2 -> Throw
         [] op = "<" -> Ok(Bool(c < 0))
         [] op = "<=" -> Ok(Bool(c <= 0))
         [] op = ">" -> Ok(Bool(c > 0))
         [] op = ">=" -> Ok(Bool(c >= 0))
         [] op = "<=>" -> Ok(MkInt(IntFromInt(c)))
         [] op = ">=<" -> Ok(MkInt(IntFromInt(-c)))

(* chained comparison: conjunction of its links, left to right, stopping at the first false *)
Chain3Exp(ev) ==
    LET r1 == CmpBin(ev.op1, ev.a, ev.b)
    IN IF r1.out # "ok" THEN r1 ELSE IF r1.r.i.s = 0 THEN r1 ELSE CmpBin(ev.op2, ev.b, ev.c)

\* (IF, not a disjunction: in an action TLC explores every disjunct, so `ok \/ Report` would
\* print the report even when ok holds)
Chk(ok, ev, exp) == IF ok THEN TRUE ELSE Report(ev, exp)
Step(ev) ==
    CASE ev.ev = "bin" -> LET exp == NumBin(ev.op, ev.a, ev.b) IN Chk(Agrees(exp, ev), ev, exp)
      [] ev.ev = "un" -> LET exp == NumUn(ev.op, ev.a) IN Chk(Agrees(exp, ev), ev, exp)
      [] ev.ev = "fact" -> Chk(ev.out = "ok" /\ FactorizeOk(ev.a.i, ev.fs), ev, [out |-> "factorize"])
      [] ev.ev = "tofloat" -> Chk(FloatConvOk(ev), ev, [out |-> "correctly-rounded"])
      [] ev.ev = "mixed" -> Chk(MixedOk(ev), ev, [out |-> "mixed=float-op-on-converted"])
      [] ev.ev = "fbin" -> Chk(FBinOk(ev), ev, [out |-> "correctly-rounded"])
      [] ev.ev = "sort" -> Chk(SortOk(ev), ev, [out |-> "stable-sorted-permutation"])
      [] ev.ev = "extremum" -> Chk(ExtremumOk(ev), ev, [out |-> "first-extremal"])
      [] ev.ev = "vec" -> Chk(VecOk(ev), ev, [out |-> "elementwise-broadcast"])
      [] ev.ev = "seqcmp" -> LET exp == SeqCmpExp(ev.op, ev.xs, ev.ys) IN Chk(Agrees(exp, ev), ev, exp)
      [] ev.ev = "chain3" -> LET exp == Chain3Exp(ev) IN Chk(Agrees(exp, ev), ev, exp)

Init == l = 1
Next == /\ l <= Len(Rec)
        /\ Step(Rec[l])
        /\ l' = l + 1
Done == l = Len(Rec) + 1 => PrintT("TRACE-END " \o ToString(Len(Rec)))
=============================================================================
