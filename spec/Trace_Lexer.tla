----------------------------- MODULE Trace_Lexer -----------------------------
(***************************************************************************)
(* Trace validation for C15.  One event per input text, recorded from the  *)
(* real interpreter by tools/c15.py:                                       *)
(*   text   the input as code points                                       *)
(*   lexo   outcome of lex(text):   ok | panic | timeout | abort           *)
(*   toks   the tokens it produced (kinds and decoded literal payloads)    *)
(*   parse  outcome of parse(text): ok | parse_error | empty | panic | ... *)
(*   evo    outcome of evaluating the text (none when not evaluated)       *)
(*   val    the value it evaluated to                                      *)
(*   mode   "full", or "protocol" for the very long inputs whose text is   *)
(*          not shipped (delimiter towers, 10^4-digit decimals): only the  *)
(*          outcomes are judged                                            *)
(* The specification runs its own lexer (Lexer!Lex) on the logged text and *)
(* compares: the protocol part (lex returns, parse returns ok /            *)
(* parse_error / empty) is required of EVERY event; the token list, the    *)
(* consequences for the parse outcome and the value of a one-literal       *)
(* program are compared exactly whenever every character of the text has a *)
(* class the specification transcribes.                                    *)
(***************************************************************************)
EXTENDS Lexer, Json, IOUtils

Rec == ndJsonDeserialize(IOEnv.TRACE)

VARIABLE l
vars == <<l>>

SameTok(e, o) == e.k = o.k /\ (e.k \in {"Comment", "Invalid"} \/ e = o)
\* 0 when the lists agree, else the first index at which they differ
FirstDiff(es, os, j) ==
    LET n == IF Len(es) >= Len(os) THEN Len(es) ELSE Len(os)
        bad == {i \in j..n : i > Len(es) \/ i > Len(os) \/ ~SameTok(es[i], os[i])}
    IN IF bad = {} THEN 0 ELSE CHOOSE i \in bad : \A i2 \in bad : i <= i2

Protocol(ev) == ev.lexo = "ok" /\ ev.parse \in ParseOutcomes

Report(ev, exp) == PrintT("MISMATCH " \o ToJson([l |-> l, id |-> ev.id, exp |-> exp]))
NoTok == [k |-> "(end of token list)"]

Check(ev) ==
    LET fin == Lex(ev.text)
    IN IF ~Protocol(ev) THEN Report(ev, [why |-> "protocol", at |-> 0, tok |-> NoTok])
       ELSE IF ev.mode = "protocol" \/ fin.mode = "unk" THEN TRUE
       ELSE LET d == FirstDiff(fin.toks, ev.toks, 1)
                nc == NonComment(fin.toks)
            IN IF d # 0 THEN Report(ev, [why |-> "tokens", at |-> d,
                                         tok |-> IF d <= Len(fin.toks) THEN fin.toks[d] ELSE NoTok])
               ELSE IF ~ParseAgrees(fin.toks, ev.parse)
                    THEN Report(ev, [why |-> "parse", at |-> 0, tok |-> [k |-> ParseExpect(fin.toks)]])
               ELSE IF IsSingleLiteral(fin.toks) /\ ev.evo # "none"
                       /\ ~(ev.evo = "ok" /\ ev.val.t = LiteralValue(nc[1]).t /\ ev.val = LiteralValue(nc[1]))
                    THEN Report(ev, [why |-> "value", at |-> 0, tok |-> nc[1]])
               ELSE TRUE

Init == l = 1
Next == /\ l <= Len(Rec)
        /\ Check(Rec[l])
        /\ l' = l + 1
Done == l = Len(Rec) + 1 => PrintT("TRACE-END " \o ToString(Len(Rec)))
=============================================================================
