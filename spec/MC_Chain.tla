------------------------------ MODULE MC_Chain ------------------------------
(***************************************************************************)
(* C03, bounded model.  The operator expressions of a chain evaluate to    *)
(* function values chosen one at a time (action Choose): every precedence  *)
(* in {1, 2, 3, NaN}, both associativities, every chain class              *)
(*   plain                              (closures, ordinary builtins)      *)
(*   cmp                                (< <= == != > >= ...)              *)
(*   self1   sf 1                       (cartesian product: self-chaining)*)
(*   head1   pf 1,  prep1  pn 1         (fold / scan ... from)             *)
(* and, in chains of at most NFam operators, a second set of families      *)
(*   self2   sf 2 pf 2,  prep2  pn 2    (zip / ziplongest ... with)        *)
(*   head3   pf 3,       prep3  pn 3    (to / til ... by)                  *)
(* so that operators of different families meet.  The chain ends after any *)
(* operand (at most MaxN operators).  The machine runs as a direct chain   *)
(* and as an underscore section for each hole pattern in Pats.             *)
(*                                                                         *)
(* TLC checks, at the end of every chain: the machine's tree = Climb       *)
(* (= Decl where defined), operands used once and in order, the            *)
(* evaluation log, the merge rule, the fast path.  Every finished run      *)
(* prints one  REPLAY {mode, pat, ops, tree, log}  line; tools/c03.py      *)
(* instantiates it with real operators in the real interpreter.            *)
(***************************************************************************)
EXTENDS Chain, Json

CONSTANTS MaxN,     \* operators per chain
          AllOps,   \* FALSE: only operators that have a real counterpart (see Instantiable);
                    \* TRUE: all of them in direct mode (sections always use instantiable ones)
          NFam,     \* chains up to this length may use the second set of families
          Pats,     \* hole patterns explored in section mode
          PrintAll  \* print REPLAY lines also for chains no real operator can instantiate

PrecVals == {[nan |-> FALSE, v |-> 1], [nan |-> FALSE, v |-> 2], [nan |-> FALSE, v |-> 3], [nan |-> TRUE, v |-> 0]}
Cls(c, cmp, sf, pf, pn, fam2) == [cls |-> c, cmp |-> cmp, sf |-> sf, pf |-> pf, pn |-> pn, fam2 |-> fam2]
Classes == {Cls("plain", FALSE, 0, 0, 0, FALSE), Cls("cmp", TRUE, 0, 0, 0, FALSE),
            Cls("self1", FALSE, 1, 0, 0, FALSE), Cls("head1", FALSE, 0, 1, 0, FALSE),
            Cls("prep1", FALSE, 0, 0, 1, FALSE),
            Cls("self2", FALSE, 2, 2, 0, TRUE), Cls("prep2", FALSE, 0, 0, 2, TRUE),
            Cls("head3", FALSE, 0, 3, 0, TRUE), Cls("prep3", FALSE, 0, 0, 3, TRUE)}
Ops == {[prec |-> p, assoc |-> a, cls |-> c.cls, cmp |-> c.cmp, sf |-> c.sf, pf |-> c.pf, pn |-> c.pn,
         fam2 |-> c.fam2] : p \in PrecVals, a \in {"L", "R"}, c \in Classes}

\* only `^`, `.+` and `prepend` are registered right-associative and associativity cannot be
\* assigned, so a right-associative operator of a chainable class has no real counterpart
Instantiable(d) == d.assoc = "L" \/ d.cls = "plain"

Init == \/ MInit("direct", "none")
        \/ \E p \in Pats : MInit("section", p)

Choose ==
    /\ Len(chain) < MaxN
    /\ \E d \in Ops :
         /\ (AllOps /\ mode = "direct") \/ Instantiable(d)      \* sections: instantiable operators only
         /\ (d.fam2 \/ \E j \in 1..Len(chain) : chain[j].fam2) => Len(chain) < NFam
         /\ EvalOperator(d)

\* compact: precedence 0 stands for NaN
Short(d) == [p |-> IF d.prec.nan THEN 0 ELSE d.prec.v, a |-> d.assoc, c |-> d.cls]
Emit == IF mode = "direct"
        THEN PrintT("REPLAY " \o ToJson([mode |-> mode, ops |-> [j \in 1..Len(chain) |-> Short(chain[j])],
                                         tree |-> rightmost, log |-> log]))
        \* (the section's tree is the direct tree: TreeAgrees holds in both modes)
        ELSE PrintT("REPLAY " \o ToJson([mode |-> mode, pat |-> pat, ops |-> [j \in 1..Len(chain) |-> Short(chain[j])],
                                         log |-> log]))
FinishAndEmit ==
    /\ Finish
    /\ (PrintAll \/ \A j \in 1..Len(chain) : Instantiable(chain[j])) => Emit

Next == Choose \/ EvalOperand0 \/ EvalOperand \/ EndChain \/ Merge \/ Reduce \/ Push \/ FinishReduce \/ FinishAndEmit
Spec == Init /\ [][Next]_mvars
=============================================================================
