------------------------------ MODULE MC_Lexer ------------------------------
(***************************************************************************)
(* C15, bounded model: TLC feeds the lexer automaton of Lexer.tla with     *)
(* EVERY string up to a bound over an alphabet that has one representative *)
(* code point per character class (tools/c15.py substitutes other members  *)
(* of each class when replaying).  The automaton is online, so the strings *)
(* are explored as a prefix tree: Extend feeds one more character; vfin    *)
(* is the result of end-of-input after the text so far, and one REPLAY     *)
(* line per string carries the text and the token list (kinds and decoded  *)
(* literal payloads) the specification computed for it.                    *)
(*                                                                         *)
(* Checked on every state / step:                                          *)
(*   Total      no undefined transition is ever taken, the mode is known   *)
(*   Progress   every step consumes exactly one character (pos strictly    *)
(*              increases); together with BoundedDispatch (at most 3       *)
(*              re-dispatches of a character) this is termination          *)
(*   EndsInTokens  every input ends in mode "end" with a list of tokens of *)
(*              known kinds (possibly Invalid ones)                        *)
(*   TokensGrow / FinishExtends  tokens are only ever appended             *)
(*   FloatsRounded  (on the initial state) the rounding function used for  *)
(*              float literals satisfies NumTower!CorrectlyRounded         *)
(***************************************************************************)
EXTENDS Lexer, Json

NT == INSTANCE NumTower      \* only for the cross-check FloatsRounded

CONSTANTS Which,        \* "full" | "fullx" | "core" | "num" | "num2" | "str"
          MaxLen        \* characters added after the prefix

\* one representative per class (quick); the wider alphabet adds second members and the classes
\* whose lexical behaviour coincides with a kept one (thorough, same bound); Core is the subset
\* with a distinct role in some mode (thorough, one character more)
FullAlpha == {48, 49, 57,
              97, 98, 101, 102, 105, 111, 113, 114, 120, 122,
              66, 70, 82, 69, 90,
              95, 39, 34, 92, 35, 40, 41, 91, 123, 96, 44, 58, 32, 10,
              46, 45, 61, 33, 63, 60, 62, 43,
              128009, 233, 8364}
FullXAlpha == FullAlpha \cup {55, 110, 117, 88, 59, 93, 125, 47, 8743, 9, 1635}
CoreAlpha == {48, 49, 57, 97, 101, 102, 114, 120, 122, 66, 70, 82, 95, 39, 34, 92, 35, 40, 41, 91, 123, 58, 32, 10,
              46, 45, 61, 33, 63, 60, 62}
NumAlpha == {48, 49, 55, 57, 97, 98, 101, 102, 105, 113, 114, 120, 122, 111, 46, 45, 43, 95}
Num2Alpha == {48, 49, 57, 46, 101, 45, 114, 120, 102, 122}
NumPrefixes == {<<48>>, <<49>>, <<57>>, <<54, 52>>, <<51, 54>>}
Num2Prefixes == {<<48>>, <<49>>, <<57>>, <<51, 54>>}
StrAlpha == {34, 39, 92, 110, 120, 117, 123, 125, 40, 41, 93, 62, 48, 70, 103}
StrPrefixes == {<<34>>, <<39>>, <<66, 34>>, <<70, 34>>, <<82, 34>>, <<34, 92>>, <<34, 92, 117>>,
                <<34, 92, 120>>, <<34, 92, 117, 123>>, <<34, 92, 117, 40>>, <<66, 39, 92, 117, 60>>,
                <<70, 34, 92, 117, 91>>, <<34, 92, 117, 123, 70, 70, 70, 70, 70, 70, 70>>}

Alphabet == CASE Which = "full" -> FullAlpha [] Which = "fullx" -> FullXAlpha [] Which = "core" -> CoreAlpha
              [] Which = "num" -> NumAlpha [] Which = "num2" -> Num2Alpha [] Which = "str" -> StrAlpha
Prefixes == CASE Which \in {"full", "fullx", "core"} -> {<<>>} [] Which = "num" -> NumPrefixes
              [] Which = "num2" -> Num2Prefixes [] Which = "str" -> StrPrefixes

\* RoundNatRatio against the relation of NumTower on a grid of decimal literals around the
\* rounding, overflow and underflow boundaries (evaluated once, on the state whose text is "0.")
GridInt == {<<49>>, <<57, 48, 48, 55, 49, 57, 57, 50, 53, 52, 55, 52, 48, 57, 57, 51>>,
            <<49, 55, 57, 55, 54, 57, 51, 49, 51, 52, 56, 54, 50, 51, 49, 53, 56>>,
            <<52, 57, 52, 48, 54, 53, 54, 52, 53, 56, 52, 49, 50, 52, 54, 53, 52, 52>>,
            <<49, 50, 51, 52, 53, 54, 55, 56, 57, 48, 49, 50, 51, 52, 53, 54, 55, 56, 57>>}
GridFrac == {<<>>, <<53>>}
\* (NumTower's relation reduces fractions with 300-digit terms for the extreme exponents: up to a
\*  minute per literal in TLC, so only a few of those, and only in the thorough tier)
GridExp == {<<48>>, <<49>>, <<50, 50>>, <<50, 51>>, <<52, 48>>}
ExtraGrid == IF MaxLen <= 4 THEN {}
             ELSE {<<(<<49>>), (<<>>), FALSE, (<<51, 48, 56>>)>>, <<(<<49, 55, 57, 55, 54, 57, 51, 49, 51, 52, 56, 54, 50, 51, 49, 53, 56>>), (<<>>), FALSE, (<<50, 57, 50>>)>>,
                   <<(<<52, 57, 52, 48, 54, 53, 54, 52, 53, 56, 52, 49, 50, 52, 54, 53, 52, 52>>), (<<>>), TRUE, (<<51, 52, 49>>)>>,
                   <<(<<50>>), (<<52, 55>>), TRUE, (<<51, 50, 52>>)>>}

\* (computed inside the action that reaches "0.", where TLC caches LET values; the invariant reads the flag)
FloatGridOk ==
    /\ \A is \in GridInt, fs \in GridFrac, es \in GridExp, ng \in BOOLEAN :
          NT!CorrectlyRounded(FloatOf(is, fs, ng, es), FloatExact(is, fs, ng, es))
    /\ \A g \in ExtraGrid :
          NT!CorrectlyRounded(FloatOf(g[1], g[2], g[3], g[4]), FloatExact(g[1], g[2], g[3], g[4]))

VARIABLES vtext, vst, vfin, vpos, vleft, vchk
vars == <<vtext, vst, vfin, vpos, vleft, vchk>>

\* the text, its tokens, what follows for parse(text) and - for a one-literal program - its value
Replay(text, fin) == PrintT("REPLAY " \o ToJson([text |-> text, toks |-> fin.toks,
                                                  pe |-> ParseExpect(fin.toks), lit |-> LiteralExpect(fin.toks)]))

Init == \E p \in Prefixes :
           /\ vtext = p /\ vst = FeedAll(St0, p, 1) /\ vfin = Finish(vst)
           /\ vpos = Len(p) /\ vleft = MaxLen /\ vchk = TRUE
           /\ Replay(vtext, vfin)

\* one more character; vfin is what end-of-input after it would give (one REPLAY line per string)
\* (everything is computed from unprimed values: TLC does not cache lazy values under a prime)
Extend == /\ vleft > 0
          /\ \E c \in Alphabet :
                LET st2 == Step(vst, c)
                    fin == Finish(st2)
                    txt == Append(vtext, c)
                IN /\ vtext' = txt /\ vst' = st2 /\ vfin' = fin
                   /\ vchk' = (IF Which = "num2" /\ txt = <<48, 46>> THEN FloatGridOk ELSE TRUE)
                   /\ Replay(txt, fin)
          /\ vpos' = vpos + 1 /\ vleft' = vleft - 1

Next == Extend
Spec == Init /\ [][Next]_vars

Total == vst.mode \in Modes \ {"unk", "end"} /\ vfin.mode \in Modes \ {"unk"}
BoundedDispatch == vst.eps <= 3
PosOk == vpos = Len(vtext)
EndsInTokens == /\ vfin.mode = "end"
                /\ \A j \in 1..Len(vfin.toks) : vfin.toks[j].k \in Kinds
\* end of input only ever appends to the tokens emitted so far
FinishExtends == /\ Len(vfin.toks) >= Len(vst.toks)
                 /\ SubSeq(vfin.toks, 1, Len(vst.toks)) = vst.toks
Progress == [][vpos' = vpos + 1]_vars
TokensGrow == [][/\ Len(vst'.toks) >= Len(vst.toks)
                 /\ SubSeq(vst'.toks, 1, Len(vst.toks)) = vst.toks]_vars

FloatsRounded == vchk
=============================================================================
