INIT Init
NEXT Next
INVARIANT TraceDone
CHECK_DEADLOCK FALSE
