----------------------------- MODULE Trace_Pattern -----------------------------
(***************************************************************************)
(* C12, trace validation.  The trace (ndjson, path in env TRACE) records   *)
(* what the real interpreter did on randomly generated, deeper patterns    *)
(* and on long assignment histories:                                       *)
(*                                                                         *)
(*   ev = "match"  p, v, ctx, o, b                                         *)
(*        ctx = "decl":    p := v ;  o = "ok" / "fail" (raised), b = the   *)
(*                         names of p that are bound afterwards, with      *)
(*                         their values                                    *)
(*        ctx = "switch":  switch (v) case p -> .. case _ -> ..;           *)
(*                         o = "ok" (the arm ran) / "fail" (it did not)    *)
(*        ctx = "lambda":  (\p -> ..)(v); o = "ok" / "fail" (raised)       *)
(*   ev = "hist"   ty (declared types of xa, xb), init (their values after *)
(*        declaration), steps = [a, o, xa, xb, isa, isb]: the action, its  *)
(*        outcome "ok" / "raise", the values of both variables and         *)
(*        `x is T` afterwards                                              *)
(*                                                                         *)
(* Every event is re-computed with Pattern!Match / Pattern!Apply from the  *)
(* logged pattern, value and actions; where the specification says         *)
(* "unspecified" anything is accepted (for a history: from that step on).  *)
(* Mismatches are printed and do not block.                                *)
(***************************************************************************)
EXTENDS Pattern, Json, TLC

Rec == ndJsonDeserialize(IOEnv.TRACE)
VARIABLE l
tvars == <<l>>

Report(ev, exp) == PrintT("MISMATCH " \o ToJson([l |-> l, id |-> ev.id, exp |-> exp]))
Chk(ok, ev, exp) == IF ok THEN TRUE ELSE Report(ev, exp)

SetOf(s) == {s[j] : j \in 1..Len(s)}
MatchAgrees(ev, r) ==
    IF r.u THEN TRUE
    ELSE IF ~r.ok THEN ev.o = "fail"
    ELSE /\ ev.o = "ok"
         /\ ev.ctx = "decl" => SetOf(ev.b) = {[n |-> r.b[j].n, v |-> r.b[j].v] : j \in 1..Len(r.b)}

\* fold a history: first step the specification cannot explain (0 = none)
RECURSIVE FirstBad(_, _, _, _)
FirstBad(steps, j, vs, br) ==
    IF j > Len(steps) THEN 0
    ELSE LET s == steps[j]
             r == Apply(vs, br, s.a)
         IN IF r.out = "unspec" THEN 0
            ELSE IF /\ s.o = r.out
                    /\ s.xa = r.vars["xa"].val /\ s.xb = r.vars["xb"].val
                    /\ s.isa = IsType(r.vars["xa"].ty, r.vars["xa"].val)
                    /\ s.isb = IsType(r.vars["xb"].ty, r.vars["xb"].val)
                    /\ TypedState(r.vars, r.broken)
                 THEN FirstBad(steps, j + 1, r.vars, r.broken)
                 ELSE j
HistBad(ev) ==
    LET vs == [x \in VarNames |-> [ty |-> ev.ty[x], val |-> ev.init[x]]]
    IN IF ~TypedState(vs, {}) THEN -1 ELSE FirstBad(ev.steps, 1, vs, {})

Step(ev) ==
    CASE ev.ev = "match" ->
            LET r == Match(ev.p, ev.v, TAny)
            IN Chk(MatchAgrees(ev, r), ev, [rule |-> "match", ok |-> r.ok, b |-> r.b])
      [] ev.ev = "hist" ->
            LET bad == HistBad(ev) IN Chk(bad = 0, ev, [rule |-> "hist", step |-> bad])

Init == l = 1
Next == /\ l <= Len(Rec)
        /\ Step(Rec[l])
        /\ l' = l + 1
Done == l = Len(Rec) + 1 => PrintT("TRACE-END " \o ToString(Len(Rec)))
=============================================================================
