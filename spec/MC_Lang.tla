------------------------------- MODULE MC_Lang -------------------------------
(***************************************************************************)
(* Bounded exploration of REPL sessions of the reference interpreter Lang. *)
(*                                                                         *)
(* The statement vocabulary is a finite list of statement ASTs (file: env  *)
(* STMTS, one JSON record per line: [ast, w] where w is the list of global *)
(* variables the statement is allowed to change - its "addressed"          *)
(* variables).  TLC explores EVERY history of at most Depth statements     *)
(* from the empty session, one statement per step, and                     *)
(*   - checks Frame: a statement changes no tracked global outside its     *)
(*     write set, whatever the alias graph built by the history so far     *)
(*     (C01: "the addressed slot of the named variable changes, nothing    *)
(*     else does"), and the same for failing statements (C14 frame);       *)
(*   - checks Sane: scopes form a tree rooted at the global scope, every   *)
(*     closure's defining scope exists (C05);                              *)
(*   - prints every transition with the outcome the specification          *)
(*     computed (outcome class, value, printed text, all tracked globals); *)
(*     tools/langmc.py replays each one in the real interpreter.           *)
(* hist (the path) is hidden by the VIEW: every distinct session state is  *)
(* expanded once.                                                          *)
(***************************************************************************)
EXTENDS Lang, Json, IOUtils

CONSTANT Depth

\* the first Prelude statements of the vocabulary are executed, in order, before the exploration starts
Prelude == ndJsonDeserialize(IOEnv.TRACK)[1].prelude

Stmts == ndJsonDeserialize(IOEnv.STMTS)
Track == ndJsonDeserialize(IOEnv.TRACK)[1].names
NS == Len(Stmts)

VARIABLES st, hist, phase, pick, res
vars == <<st, hist, phase, pick, res>>
View == <<st, phase, pick, Len(hist)>>

NoRes == [out |-> "", v |-> Null, printed |-> <<>>, snap |-> <<>>]
Snap(s) == [i \in 1..Len(Track) |-> GlobalOf(s, Track[i])]

RECURSIVE RunPrelude(_, _)
RunPrelude(s, i) == IF i > Prelude \/ Len(s.envs) < 0 THEN s
                    ELSE RunPrelude([Exec(s, Stmts[i].ast).st EXCEPT !.out = <<>>], i + 1)
Init == st = RunPrelude(St0, 1) /\ hist = [i \in 1..Prelude |-> i] /\ phase = "pick" /\ pick = 0 /\ res = NoRes

\* choose the next statement (cheap step; the evaluation happens in Run on the current state)
Pick == /\ phase = "pick" /\ Len(hist) < Prelude + Depth
        /\ pick' \in 1..NS
        /\ phase' = "run"
        /\ UNCHANGED <<st, hist, res>>
Run == /\ phase = "run"
       /\ LET r == Exec([st EXCEPT !.out = <<>>], Stmts[pick].ast)
              o == [out |-> OutClass(r), v |-> IF r.k = "val" THEN Proj(r.v) ELSE Null,
                    printed |-> r.st.out, snap |-> Snap(r.st)]
          IN /\ PrintT("REPLAY " \o ToJson([hist |-> hist, pick |-> pick, exp |-> o]))
             /\ st' = [r.st EXCEPT !.out = <<>>]
             /\ res' = [o EXCEPT !.snap = Snap(st)]      \* res.snap: the snapshot BEFORE the statement
       /\ hist' = Append(hist, pick)
       /\ phase' = "pick"
       /\ UNCHANGED pick
Next == Pick \/ Run
Spec == Init /\ [][Next]_vars

\* nothing outside the statement's write set changed (res.snap = globals before, st = after)
Frame ==
    (phase = "pick" /\ Len(hist) > Prelude) =>
       \A i \in 1..Len(Track) :
          (\A j \in 1..Len(Stmts[pick].w) : Stmts[pick].w[j] # Track[i]) => res.snap[i] = GlobalOf(st, Track[i])
Sane ==
    /\ \A e \in 1..Len(st.envs) : st.envs[e].p < e
    /\ \A c \in 1..Len(st.clos) : st.clos[c].env \in 1..Len(st.envs)
=============================================================================
