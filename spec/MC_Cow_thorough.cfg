SPECIFICATION Spec
CONSTANT Depth = 6
CONSTANT NoDropLhs = FALSE
INVARIANT InPlaceWhenUnique
INVARIANT CopyBounded
INVARIANT RepeatIsFree
INVARIANT RcSane
VIEW View
CHECK_DEADLOCK FALSE
