INIT Init
NEXT Next
CONSTANT Mutation = "none"
INVARIANT Done
CHECK_DEADLOCK FALSE
