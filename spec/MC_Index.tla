------------------------------ MODULE MC_Index ------------------------------
(***************************************************************************)
(* C10, bounded model.  TLC enumerates                                      *)
(*   sequence kind (list, four string alphabets of 1..4 byte code points,   *)
(*   vector, bytes, three finite stream constructors)                       *)
(*   x length 0..MaxLen                                                      *)
(*   x index / slice bound in [-len-Margin, len+Margin] plus the extremes   *)
(*     +-2^63, +-(2^63-1), +-2^64, +-10^30, 1.0, 1/2, "a", null, omitted    *)
(*   x operation (index, slice, every accessor builtin, every write form)   *)
(*   x surface form (expression, section, builtin, call / infix)            *)
(* computes the result the specification (Index.tla) assigns, checks the    *)
(* lemmas of Index.tla on every case (CaseLemmas) and on the whole bounded  *)
(* domain (ASSUME), and prints one REPLAY line per case; tools/c10.py       *)
(* replays each in the real interpreter.                                    *)
(***************************************************************************)
EXTENDS Index, Json, Sequences

CONSTANTS MaxLen,        \* lengths 0..MaxLen
          Margin,        \* integer bounds in -len-Margin .. len+Margin
          Tags,          \* sequence descriptors enumerated
          SliceTags,     \* descriptors that get the full bound x bound slice grid
          EveryTags      \* descriptors that get the bound x bound grid of `every x[a:b] = w`

(* ------------------------------ contents ------------------------------- *)
StrBytes(tag, len) ==
    CASE tag = "s1" -> SubSeq(<<97, 98, 99, 100, 101, 102, 103>>, 1, len)
      [] tag = "s2" -> CASE len = 0 -> <<>> [] len = 1 -> <<97>> [] len = 2 -> <<195, 169>>
                         [] len = 3 -> <<97, 195, 169>> [] len = 4 -> <<195, 169, 195, 177>>
                         [] len = 5 -> <<195, 169, 97, 195, 177>> [] len = 6 -> <<97, 195, 169, 98, 195, 177>>
                         [] OTHER -> <<195, 169, 97, 195, 177, 195, 188>>
      [] tag = "s3" -> CASE len = 0 -> <<>> [] len = 1 -> <<98>> [] len = 2 -> <<195, 188>>
                         [] len = 3 -> <<226, 130, 172>> [] len = 4 -> <<226, 130, 172, 97>>
                         [] len = 5 -> <<195, 169, 226, 130, 172>> [] len = 6 -> <<226, 130, 172, 226, 130, 172>>
                         [] OTHER -> <<97, 226, 130, 172, 226, 130, 172>>
      [] tag = "s4" -> CASE len = 0 -> <<>> [] len = 1 -> <<99>> [] len = 2 -> <<195, 159>>
                         [] len = 3 -> <<99, 195, 159>> [] len = 4 -> <<240, 159, 152, 128>>
                         [] len = 5 -> <<240, 159, 152, 128, 100>> [] len = 6 -> <<100, 240, 159, 152, 128, 101>>
                         [] OTHER -> <<240, 159, 152, 128, 226, 130, 172>>
KindOf(tag) == CASE tag = "list" -> "list" [] tag \in {"s1", "s2", "s3", "s4"} -> "str"
                 [] tag = "vec" -> "vec" [] tag = "bytes" -> "bytes"
                 [] tag \in {"range", "wstream", "lmap"} -> "stream"
\* range:   (11 til 11+len)      wstream: stream([11, ..])      lmap: (11 til 11+len) lazy_map (\q -> q)
Content(tag, len) ==
    CASE KindOf(tag) \in {"list", "stream"} -> [j \in 1..len |-> VInt(10 + j)]
      [] KindOf(tag) = "vec" -> [j \in 1..len |-> 10 + j]
      [] KindOf(tag) = "bytes" -> [j \in 1..len |-> 200 + 7 * j]
      [] KindOf(tag) = "str" -> StrBytes(tag, len)
Desc(tag, len) == [tag |-> tag, k |-> KindOf(tag), xs |-> Content(tag, len)]
NewElem(k) == CASE k \in {"list", "stream"} -> VInt(99) [] k \in {"vec", "bytes"} -> 99 [] k = "str" -> 122

(* -------------------------------- pools -------------------------------- *)
Pow2(e) == IntMk(1, NatShl(<<1>>, e))
Ten30 == IntMk(1, NatPow(<<10>>, 30))
ExtremeInts == {Pow2(63), IntNeg(Pow2(63)), IntSub(Pow2(63), IntOne), IntNeg(IntSub(Pow2(63), IntOne)),
                Pow2(64), IntNeg(Pow2(64)), Ten30, IntNeg(Ten30)}
NonInts == {[c |-> "float"], [c |-> "rat"], [c |-> "str"], [c |-> "null"]}
IndexPool(len) == {IxN(x) : x \in (-len - Margin)..(len + Margin)} \cup {IxInt(x) : x \in ExtremeInts} \cup NonInts
BoundPool(len) == IndexPool(len) \cup {IxOmit}

VARIABLES phase, vseq, vcls, vop, vform, va1, va2, vw, vexp
vars == <<phase, vseq, vcls, vop, vform, va1, va2, vw, vexp>>

NoSeq == [tag |-> "", k |-> "list", xs |-> <<>>]
Init == /\ phase = "start" /\ vseq = NoSeq /\ vcls = "" /\ vop = "" /\ vform = ""
        /\ va1 = IxOmit /\ va2 = IxOmit /\ vw = 0 /\ vexp = RUnspec

PickSeq == /\ phase = "start"
           /\ \E tag \in Tags, len \in 0..MaxLen : vseq' = Desc(tag, len)
           /\ phase' = "seq" /\ UNCHANGED <<vcls, vop, vform, va1, va2, vw, vexp>>
PickA1 == /\ phase = "seq"
          /\ va1' \in BoundPool(SeqLen(vseq))
          /\ phase' = "a1" /\ UNCHANGED <<vseq, vcls, vop, vform, va2, vw, vexp>>

Emit(cls, op, form, a1, a2, w, exp) ==
    /\ PrintT("REPLAY " \o ToJson([tag |-> vseq.tag, k |-> vseq.k, xs |-> vseq.xs, cls |-> cls, op |-> op,
                                   form |-> form, a1 |-> a1, a2 |-> a2, w |-> w, exp |-> exp]))
    /\ vcls' = cls /\ vop' = op /\ vform' = form /\ va1' = a1 /\ va2' = a2 /\ vw' = w /\ vexp' = exp
    /\ phase' = "done" /\ UNCHANGED vseq

S == [k |-> vseq.k, xs |-> vseq.xs]

\* operations without an argument
ReadNullary == /\ phase = "seq"
               /\ \E op \in UnOps, form \in {"call", "juxt"} :
                    Emit("read", op, form, IxOmit, IxOmit, 0, Access(op, S, IxOmit, IxOmit))
WritePop == /\ phase = "seq" /\ vseq.k = "list"
            /\ Emit("write", "pop", "stmt", IxOmit, IxOmit, 0, Write("pop", S, IxOmit, IxOmit, 0))

\* operations with one index argument
IndexForms == {"expr", "section", "bang", "fn"}
ReadIndex == /\ phase = "a1" /\ va1.c # "omit"
             /\ \E form \in IndexForms : Emit("read", "index", form, va1, IxOmit, 0, Access("index", S, va1, IxOmit))
ReadArgOp == /\ phase = "a1" /\ va1.c # "omit"
             /\ \E op \in {"!?", "!%", "take", "drop"}, form \in {"infix", "call"} :
                  Emit("read", op, form, va1, IxOmit, 0, Access(op, S, va1, IxOmit))
WriteIndex == /\ phase = "a1" /\ va1.c # "omit"
              /\ \E op \in {"set", "opadd", "remove", "upsert", "upsert="} :
                   /\ op = "opadd" => vseq.k \in {"list", "stream"}
                   /\ op \in {"remove", "upsert", "upsert="} => vseq.k = "list"
                   /\ LET w == IF op = "opadd" THEN 7 ELSE NewElem(vseq.k)
                      IN Emit("write", op, "stmt", va1, IxOmit, w, Write(op, S, va1, IxOmit, w))

\* operations with two slice bounds
ReadSlice == /\ phase = "a1" /\ vseq.tag \in SliceTags
             /\ \E a2 \in BoundPool(SeqLen(vseq)), form \in {"expr", "section"} :
                  Emit("read", "slice", form, va1, a2, 0, Access("slice", S, va1, a2))
WriteSlice == /\ phase = "a1"
              /\ \E a2 \in BoundPool(SeqLen(vseq)), op \in {"removeslice", "everyset", "everyadd"} :
                   /\ op = "removeslice" => vseq.k = "list"
                   /\ op = "everyset" => vseq.tag \in EveryTags
                   /\ op = "everyadd" => vseq.tag = "list"
                   /\ LET w == IF op = "everyadd" THEN 7 ELSE NewElem(vseq.k)
                      IN Emit("write", op, "stmt", va1, a2, w, Write(op, S, va1, a2, w))

Next == PickSeq \/ PickA1 \/ ReadNullary \/ WritePop \/ ReadIndex \/ ReadArgOp \/ WriteIndex \/ ReadSlice \/ WriteSlice
Spec == Init /\ [][Next]_vars

(* ----------------- lemmas on every enumerated case --------------------- *)
CaseLemmas ==
    phase = "done" =>
      LET len == SeqLen(vseq) IN
      /\ (vop = "index" /\ va1.c = "int") =>
            /\ IndexLemmaBig(len, va1.i)
            /\ (vexp.out = "ok") <=> PyIndex(len, va1).ok
      /\ (vop = "index" /\ va1.c # "int") => vexp.out = "throw"
      /\ vop \in {"slice", "removeslice", "everyset", "everyadd"} =>
            SliceLemma(len, va1, va2) /\ SliceDeclLemma(len, va1, va2)
      /\ (vop = "slice" /\ ~LooseBound(va1) /\ ~LooseBound(va2) /\ ~BadBound(va1) /\ ~BadBound(va2)) =>
            vexp.out = "ok"                       \* never fails for bounds that fit a machine word
      /\ vop = "set" => ReadWriteLemma(S, va1, vw)
      /\ vop \in {"remove", "removeslice", "pop"} => RemoveLemma(S, vop, va1, va2)
      \* every accessor equals its index / slice expression
      /\ vop = "first" => vexp = Index(S, IxN(0))
      /\ vop = "last" => vexp = Index(S, IxN(-1))
      /\ vop = "take" => vexp = Slice(S, IxOmit, va1)
      /\ vop = "drop" => vexp = Slice(S, va1, IxOmit)

(* ------------------- lemmas on the bounded domain ---------------------- *)
LemLens == 0..6
LemInts == -10..10
ASSUME \A len \in LemLens, x \in LemInts : IndexLemma(len, x) /\ IndexLemmaBig(len, IntFromInt(x))
ASSUME \A len \in LemLens, x \in ExtremeInts : IndexLemmaBig(len, x) /\ ~PyIndex(len, IxInt(x)).ok
ASSUME \A len \in LemLens, x \in LemInts \cup {100}, y \in LemInts \cup {100} :
          LET lo == IF x = 100 THEN IxOmit ELSE IxN(x)
              hi == IF y = 100 THEN IxOmit ELSE IxN(y)
          IN SliceLemma(len, lo, hi) /\ SliceDeclLemma(len, lo, hi) /\ PySlice(len, lo, hi).out = "ok"
ASSUME \A len \in LemLens, x \in LemInts, y \in LemInts, z \in LemInts : ConcatLemma(len, x, y, z)
ASSUME \A len \in LemLens, x \in LemInts :
          /\ ReadWriteLemma(Iota(len), IxN(x), VInt(99))
          /\ RemoveLemma(Iota(len), "remove", IxN(x), IxOmit)
          /\ RemoveLemma(Iota(len), "pop", IxOmit, IxOmit)
ASSUME \A len \in LemLens, x \in LemInts, y \in LemInts : RemoveLemma(Iota(len), "removeslice", IxN(x), IxN(y))
\* the UTF-8 predicate on the alphabets used: whole strings valid, a lone lead / continuation byte not
ASSUME \A tag \in {"s1", "s2", "s3", "s4"}, len \in 0..7 : Utf8Valid(StrBytes(tag, len))
ASSUME ~Utf8Valid(<<195>>) /\ ~Utf8Valid(<<169>>) /\ ~Utf8Valid(<<226, 130>>) /\ ~Utf8Valid(<<240, 159, 152>>)
       /\ ~Utf8Valid(<<192, 128>>) /\ ~Utf8Valid(<<237, 160, 128>>) /\ ~Utf8Valid(<<244, 144, 128, 128>>)
       /\ Utf8Valid(<<>>) /\ Utf8Valid(<<244, 143, 191, 191>>)
=============================================================================
