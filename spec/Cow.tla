--------------------------------- MODULE Cow ---------------------------------
(***************************************************************************)
(* C02: the reference-counted copy-on-write protocol behind noulith's      *)
(* value semantics, as a cost model.                                       *)
(*                                                                         *)
(* heap is a sequence of payload cells [n |-> number of element slots,     *)
(* kids |-> sequence of payload ids held in its slots (rows of a nested    *)
(* list; <<>> for a flat collection), live].  A variable holds one payload *)
(* id (0 = null / scalar).  The strong count of a payload is DERIVED: the  *)
(* number of variables, heap slots and evaluator temporaries that hold it. *)
(* Mutation follows the implementation's protocol step by step:            *)
(*   MakeMut(p)   if rc(p) > 1: allocate a copy with the same slots (its   *)
(*                n element handles are copied, kids' counts go up) and    *)
(*                rebind only THIS handle; else mutate in place            *)
(*   x[i] = v     MakeMut at the variable                                  *)
(*   m[i][j] = v  MakeMut at the variable, then at row i                   *)
(*   x op= v      read x (a temporary handle), drop the LHS (slot := null, *)
(*                so the callee owns the only reference), the operator     *)
(*                MakeMuts its argument, assign back                       *)
(*   pop x / remove x[-1]   MakeMut at the variable                        *)
(* `copied` is the number of element slots copied by the last statement:   *)
(* the specification's PREDICTION of the copy volume.  The property says   *)
(* it is 0 for every statement on an unshared collection and at most n per *)
(* additional holder over a whole history (CopyOncePerHolder).             *)
(* NoDropLhs = TRUE is the negative control: op-assign without the drop    *)
(* copies on every statement and TLC must report the invariant violated.   *)
(***************************************************************************)
EXTENDS Integers, Sequences, FiniteSets, TLC

CONSTANT NoDropLhs

Vars == {"x", "y"}
NoCell == [n |-> 0, kids |-> <<>>, live |-> FALSE]

\* number of references to payload p from variables, temporaries and heap slots
RECURSIVE CountIn(_, _, _)
CountIn(s, p, i) == IF i > Len(s) THEN 0 ELSE (IF s[i] = p THEN 1 ELSE 0) + CountIn(s, p, i + 1)
RECURSIVE CountHeap(_, _, _)
CountHeap(heap, p, i) == IF i > Len(heap) THEN 0
                         ELSE (IF heap[i].live THEN CountIn(heap[i].kids, p, 1) ELSE 0) + CountHeap(heap, p, i + 1)
Rc(heap, vars, temps, p) ==
    Cardinality({v \in Vars : vars[v] = p}) + CountIn(temps, p, 1) + CountHeap(heap, p, 1)

Alloc(heap, cell) == Append(heap, cell)

\* make the payload held in handle `h` uniquely owned: <<heap', new id, slots copied>>
MakeMut(heap, vars, temps, h) ==
    IF Rc(heap, vars, temps, h) > 1
    THEN <<Alloc(heap, [heap[h] EXCEPT !.live = TRUE]), Len(heap) + 1, heap[h].n>>
    ELSE <<heap, h, 0>>

\* unreferenced payloads die (their slots no longer count)
RECURSIVE Sweep(_, _, _)
Sweep(heap, vars, i) ==
    IF i > Len(heap) THEN heap
    ELSE IF heap[i].live /\ Rc(heap, vars, <<>>, i) = 0
         THEN Sweep([heap EXCEPT ![i] = [@ EXCEPT !.live = FALSE, !.kids = <<>>]], vars, 1)
         ELSE Sweep(heap, vars, i + 1)

(* ------------------------- statement semantics ------------------------- *)
\* every statement maps (heap, vars) to [heap, vars, copied]
Res(h, v, c) == [heap |-> Sweep(h, v, 1), vars |-> v, copied |-> c]

InitFlat(heap, vars, x, n) == Res(Alloc(heap, [n |-> n, kids |-> <<>>, live |-> TRUE]), [vars EXCEPT ![x] = Len(heap) + 1], 0)
\* m := [[0] ** n] ** r : r slots that all hold the SAME row payload
InitNested(heap, vars, x, n, r) ==
    LET h1 == Alloc(heap, [n |-> n, kids |-> <<>>, live |-> TRUE])
        row == Len(h1)
        h2 == Alloc(h1, [n |-> r, kids |-> [i \in 1..r |-> row], live |-> TRUE])
    IN Res(h2, [vars EXCEPT ![x] = Len(h2)], 0)
\* m := [[0] ** n, [0] ** n, ...] / a dict of r separate lists: r slots holding r DIFFERENT row payloads
RECURSIVE AllocRows(_, _, _)
AllocRows(heap, n, r) == IF r = 0 THEN heap ELSE AllocRows(Alloc(heap, [n |-> n, kids |-> <<>>, live |-> TRUE]), n, r - 1)
InitNestedDistinct(heap, vars, x, n, r) ==
    LET h1 == AllocRows(heap, n, r)
        h2 == Alloc(h1, [n |-> r, kids |-> [i \in 1..r |-> Len(heap) + i], live |-> TRUE])
    IN Res(h2, [vars EXCEPT ![x] = Len(h2)], 0)
Alias(heap, vars, y, x) == Res(heap, [vars EXCEPT ![y] = vars[x]], 0)

SetIndex(heap, vars, x) ==
    LET m == MakeMut(heap, vars, <<>>, vars[x])
    IN Res(m[1], [vars EXCEPT ![x] = m[2]], m[3])
\* x[i][j] = v on a nested list: the outer payload, then row i
SetIndex2(heap, vars, x, i) ==
    LET m == MakeMut(heap, vars, <<>>, vars[x])
        v1 == [vars EXCEPT ![x] = m[2]]
        row == m[1][m[2]].kids[i]
        m2 == MakeMut(m[1], v1, <<>>, row)
        h3 == [m2[1] EXCEPT ![m[2]].kids[i] = m2[2]]
    IN Res(h3, v1, m[3] + m2[3])
\* x op= v (append, ++, |., ...): read, drop the LHS, the callee makes its argument mutable, assign back
OpAssign(heap, vars, x) ==
    LET p == vars[x]
        temps == <<p>>                                    \* the value read from x
        v1 == IF NoDropLhs THEN vars ELSE [vars EXCEPT ![x] = 0]
        m == MakeMut(heap, v1, temps, p)
    IN Res(m[1], [vars EXCEPT ![x] = m[2]], m[3])
\* x[i] op= v on a nested collection: the drop of the LHS writes null into slot i of the (uniquely
\* owned) outer payload, so the row's only remaining reference is the value read from it
OpAssign2(heap, vars, x, i) ==
    LET m == MakeMut(heap, vars, <<>>, vars[x])
        v1 == [vars EXCEPT ![x] = m[2]]
        row == m[1][m[2]].kids[i]
        hd == IF NoDropLhs THEN m[1] ELSE [m[1] EXCEPT ![m[2]].kids[i] = 0]
        m2 == MakeMut(hd, v1, <<row>>, row)
        h3 == [m2[1] EXCEPT ![m[2]].kids[i] = m2[2]]
    IN Res(h3, v1, m[3] + m2[3])
Pop(heap, vars, x) == SetIndex(heap, vars, x)

Forms == {"set", "set2", "opassign", "opassign2", "pop"}
Apply(form, heap, vars, x) ==
    CASE form = "set" -> SetIndex(heap, vars, x)
      [] form = "set2" -> SetIndex2(heap, vars, x, 1)
      [] form = "opassign" -> OpAssign(heap, vars, x)
      [] form = "opassign2" -> OpAssign2(heap, vars, x, 1)
      [] form = "pop" -> Pop(heap, vars, x)
IsNested(heap, p) == p # 0 /\ heap[p].kids # <<>>
=============================================================================
