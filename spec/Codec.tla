------------------------------- MODULE Codec -------------------------------
(***************************************************************************)
(* C16 - text and byte codecs as exact mathematics on code points, bytes   *)
(* and BigNum integers / rationals.                                        *)
(*                                                                         *)
(* Strings are sequences of Unicode code points, byte strings sequences of *)
(* 0..255.  Integers are BigNum signed integers [s, m]; rationals [n, d].  *)
(* A partial function returns [out |-> "ok", ...], [out |-> "throw"] or    *)
(* [out |-> "unspec"] (the property leaves the input open; anything but a  *)
(* crash is accepted and C14 judges crashes).                              *)
(*                                                                         *)
(*   StrRadix / IntRadix      positional notation, radix 2..36, sign       *)
(*                            prefix for negatives                         *)
(*   IntRender                integer text in base 2 / 8 / 10 / 16 as a    *)
(*                            function of the VALUE (what str, $, print    *)
(*                            and format strings must show)                *)
(*   ParseInt, ParseRational  decimal, scientific and p/q text, exact      *)
(*   HexEnc/HexDec, B64Enc/B64Dec (RFC 4648), Utf8Enc/Utf8Dec, Chr/Ord     *)
(*   JSON-shaped values       null | int | float | str | list | dict with  *)
(*                            JsonParse (RFC 8259 text), LitParse (Noulith *)
(*                            literal syntax, tokens by Lexer!Lex: also    *)
(*                            reads repr output), JsonRender, and Match    *)
(*                            (equality up to the order of dict entries)   *)
(* Every Dec o Enc = id law is a TLC-checked theorem in MC_Codec.          *)
(***************************************************************************)
EXTENDS Lexer

Okv(x) == [out |-> "ok", v |-> x]
ThrowR == [out |-> "throw"]
UnspecR == [out |-> "unspec"]

(* ------------------------- positional notation ------------------------- *)
DigitChar(d) == IF d < 10 THEN 48 + d ELSE 87 + d           \* 0-9 a-z
UpperDigitChar(d) == IF d < 10 THEN 48 + d ELSE 55 + d      \* 0-9 A-Z
NatStr(n, b) == LET ds == NatToDigits(n, b) IN [j \in 1..Len(ds) |-> DigitChar(ds[j])]
\* zero is "0", negatives carry a minus sign in front of the digits of the magnitude
StrRadix(i, b) == IF i.s < 0 THEN <<45>> \o NatStr(i.m, b) ELSE NatStr(i.m, b)
IntStr(i) == StrRadix(i, 10)
\* digits of either case, every one below the radix; the empty string is left open
IntRadix(s, b) ==
    IF s = <<>> THEN UnspecR
    ELSE IF \A j \in 1..Len(s) : DigitVal(s[j]) < b
         THEN Okv(IntMk(1, DigitsToNat([j \in 1..Len(s) |-> DigitVal(s[j])], b)))
         ELSE ThrowR
\* flag: "d" | "x" | "X" | "b" | "o"
FlagBase(flag) == CASE flag = "d" -> 10 [] flag \in {"x", "X"} -> 16 [] flag = "b" -> 2 [] flag = "o" -> 8
IntRender(i, flag) ==
    LET ds == NatToDigits(i.m, FlagBase(flag))
        body == [j \in 1..Len(ds) |-> IF flag = "X" THEN UpperDigitChar(ds[j]) ELSE DigitChar(ds[j])]
    IN IF i.s < 0 THEN <<45>> \o body ELSE body

(* ------------------------ decimal / rational text ---------------------- *)
IsDig(c) == c >= 48 /\ c <= 57
AllDig(s) == \A j \in 1..Len(s) : IsDig(s[j])
RECURSIVE FirstIn(_, _, _)
FirstIn(s, set, j) == IF j > Len(s) THEN 0 ELSE IF s[j] \in set THEN j ELSE FirstIn(s, set, j + 1)
Blank == {32, 9, 10, 13}
RECURSIVE TrimL(_), TrimR(_)
TrimL(s) == IF s # <<>> /\ s[1] \in Blank THEN TrimL(Tail(s)) ELSE s
TrimR(s) == IF s # <<>> /\ s[Len(s)] \in Blank THEN TrimR(SubSeq(s, 1, Len(s) - 1)) ELSE s
Trim(s) == TrimR(TrimL(s))
DigNat(s) == DigitsToNat(DecVals(s), 10)

\* [+|-] digits+   (what int(text) reads)
ParseInt(s) ==
    LET sg == IF s # <<>> /\ s[1] = 45 THEN -1 ELSE 1
        ds == IF s # <<>> /\ s[1] \in {43, 45} THEN Tail(s) ELSE s
    IN IF \E j \in 1..Len(s) : s[j] = 95 THEN UnspecR
       ELSE IF ds # <<>> /\ AllDig(ds) THEN Okv(IntMk(sg, DigNat(ds))) ELSE ThrowR

Pow10Rat(k) == IF k >= 0 THEN RatFromInt(IntMk(1, NatPow(<<10>>, k))) ELSE RatMk(IntOne, NatPow(<<10>>, -k))
\* [+|-] digits* [. digits*] [(e|E) [+|-] digits+]   with at least one digit in the mantissa:
\* the exact value  sign * digits(int ++ frac) * 10^(exp - Len(frac)); the sign belongs to the
\* whole number.  A sign directly followed by the point and exponents beyond +-9999 are left open.
ParseDecimal(s) ==
    LET e == FirstIn(s, {101, 69}, 1)
        mant == IF e = 0 THEN s ELSE SubSeq(s, 1, e - 1)
        ex == IF e = 0 THEN Okv(IntZero) ELSE ParseInt(SubSeq(s, e + 1, Len(s)))
        sg == IF mant # <<>> /\ mant[1] = 45 THEN -1 ELSE 1
        body == IF mant # <<>> /\ mant[1] \in {43, 45} THEN Tail(mant) ELSE mant
        dot == FirstIn(body, {46}, 1)
        ip == IF dot = 0 THEN body ELSE SubSeq(body, 1, dot - 1)
        fp == IF dot = 0 THEN <<>> ELSE SubSeq(body, dot + 1, Len(body))
    IN IF \E j \in 1..Len(s) : s[j] = 95 THEN UnspecR
       ELSE IF ex.out # "ok" THEN ex
       ELSE IF ~AllDig(ip) \/ ~AllDig(fp) \/ (ip = <<>> /\ fp = <<>>) THEN ThrowR
       ELSE IF dot = 0 /\ ip = <<>> THEN ThrowR
       ELSE IF dot # 0 /\ ip = <<>> /\ body # mant THEN UnspecR
       ELSE IF Len(ex.v.m) > 2 \/ NatToInt(ex.v.m) > 9999 THEN UnspecR
       ELSE LET k == ex.v.s * NatToInt(ex.v.m) - Len(fp)
                d == IntMk(sg, DigNat(ip \o fp))
            IN Okv(RatMul(RatFromInt(d), Pow10Rat(k)))
\* decimal, or  decimal / decimal  (blanks around the parts are ignored; a zero denominator is an error)
ParseRational(s0) ==
    LET s == Trim(s0)
        sl == FirstIn(s, {47}, 1)
    IN IF sl = 0 THEN ParseDecimal(s)
       ELSE LET n == ParseDecimal(Trim(SubSeq(s, 1, sl - 1)))
                d == ParseDecimal(Trim(SubSeq(s, sl + 1, Len(s))))
            IN IF n.out = "throw" \/ d.out = "throw" THEN ThrowR
               ELSE IF n.out = "unspec" \/ d.out = "unspec" THEN UnspecR
               ELSE IF d.v.n.s = 0 THEN ThrowR
               ELSE Okv(RatDiv(n.v, d.v))

(* ---------------------------------- hex -------------------------------- *)
RECURSIVE FlatR(_, _, _)
FlatR(ss, j, acc) == IF j > Len(ss) \/ Len(acc) < 0 THEN acc ELSE FlatR(ss, j + 1, acc \o ss[j])
Flat(ss) == FlatR(ss, 1, <<>>)
HexEnc(b) == Flat([j \in 1..Len(b) |-> <<DigitChar(b[j] \div 16), DigitChar(b[j] % 16)>>])
HexDec(s) == IF Len(s) % 2 = 0 /\ \A j \in 1..Len(s) : DigitVal(s[j]) < 16
             THEN Okv([j \in 1..(Len(s) \div 2) |-> 16 * DigitVal(s[2 * j - 1]) + DigitVal(s[2 * j])])
             ELSE ThrowR

(* -------------------------- base64 (RFC 4648) -------------------------- *)
B64Char(v) == IF v < 26 THEN 65 + v ELSE IF v < 52 THEN 71 + v ELSE IF v < 62 THEN v - 4
              ELSE IF v = 62 THEN 43 ELSE 47
Rfc64Val(c) == IF c >= 65 /\ c <= 90 THEN c - 65 ELSE IF c >= 97 /\ c <= 122 THEN c - 71
               ELSE IF c >= 48 /\ c <= 57 THEN c + 4 ELSE IF c = 43 THEN 62 ELSE IF c = 47 THEN 63 ELSE 99
B64Group(b, g) ==      \* g-th group of three bytes (the last one may hold one or two)
    LET o == 3 * (g - 1)
        n == Len(b) - o
        x == b[o + 1] * 65536 + (IF n >= 2 THEN b[o + 2] * 256 ELSE 0) + (IF n >= 3 THEN b[o + 3] ELSE 0)
    IN <<B64Char(x \div 262144), B64Char((x \div 4096) % 64),
         IF n >= 2 THEN B64Char((x \div 64) % 64) ELSE 61, IF n >= 3 THEN B64Char(x % 64) ELSE 61>>
B64Enc(b) == Flat([g \in 1..((Len(b) + 2) \div 3) |-> B64Group(b, g)])
\* canonical padded text is decoded; a character outside the alphabet is an error; other
\* shapes (missing padding, non-zero spare bits) are left open
B64Dec(s) ==
    LET n == Len(s)
        pad == IF n >= 2 /\ s[n] = 61 /\ s[n - 1] = 61 THEN 2 ELSE IF n >= 1 /\ s[n] = 61 THEN 1 ELSE 0
        body == SubSeq(s, 1, n - pad)
        G == n \div 4
        Quad(g) == LET o == 4 * (g - 1)
                       v(k) == IF o + k <= Len(body) THEN Rfc64Val(body[o + k]) ELSE 0
                   IN v(1) * 262144 + v(2) * 4096 + v(3) * 64 + v(4)
        Bytes(g) == LET x == Quad(g)
                        full == <<x \div 65536, (x \div 256) % 256, x % 256>>
                    IN IF g < G \/ pad = 0 THEN full ELSE SubSeq(full, 1, 3 - pad)
        spare == IF pad = 0 THEN 0 ELSE IF pad = 1 THEN Quad(G) % 256 ELSE Quad(G) % 65536
    IN IF \E j \in 1..n : Rfc64Val(s[j]) = 99 /\ s[j] # 61 THEN ThrowR
       ELSE IF n % 4 # 0 \/ (\E j \in 1..Len(body) : body[j] = 61) \/ spare # 0 THEN UnspecR
       ELSE Okv(Flat([g \in 1..G |-> Bytes(g)]))

(* --------------------------------- UTF-8 ------------------------------- *)
Utf8Enc(s) == Utf8All(s)
IsCont(x) == x >= 128 /\ x <= 191
SeqLen(x) == IF x < 128 THEN 1 ELSE IF x >= 192 /\ x <= 223 THEN 2 ELSE IF x >= 224 /\ x <= 239 THEN 3
             ELSE IF x >= 240 /\ x <= 247 THEN 4 ELSE 0
MinCp(k) == CASE k = 1 -> 0 [] k = 2 -> 128 [] k = 3 -> 2048 [] k = 4 -> 65536
\* strict decoder: a sequence is accepted iff it is the shortest encoding of a scalar value
RECURSIVE Utf8DecR(_, _, _)
Utf8DecR(b, j, acc) ==
    IF j > Len(b) \/ Len(acc) < 0 THEN Okv(acc)
    ELSE LET k == SeqLen(b[j])
         IN IF k = 0 \/ j + k - 1 > Len(b) \/ (\E t \in 1..(k - 1) : ~IsCont(b[j + t])) THEN ThrowR
            ELSE LET cp == CASE k = 1 -> b[j]
                             [] k = 2 -> (b[j] - 192) * 64 + (b[j + 1] - 128)
                             [] k = 3 -> (b[j] - 224) * 4096 + (b[j + 1] - 128) * 64 + (b[j + 2] - 128)
                             [] k = 4 -> (b[j] - 240) * 262144 + (b[j + 1] - 128) * 4096 + (b[j + 2] - 128) * 64
                                         + (b[j + 3] - 128)
                 IN IF cp < MinCp(k) \/ ~ValidScalar(cp) THEN ThrowR
                    ELSE Utf8DecR(b, j + k, Append(acc, cp))
Utf8Dec(b) == Utf8DecR(b, 1, <<>>)

\* chr on integers, ord on strings
MaxScalar == IntFromInt(1114111)
Chr(i) == IF i.s >= 0 /\ IntCmp(i, MaxScalar) <= 0 /\ ValidScalar(IntToInt(i)) THEN Okv(<<IntToInt(i)>>) ELSE ThrowR
Ord(s) == IF Len(s) = 1 THEN Okv(IntFromInt(s[1])) ELSE ThrowR

(* ----------------------------- JSON-shaped values ---------------------- *)
VNull == [t |-> "null"]
VInt(i) == [t |-> "int", i |-> i]
VFloat(f) == [t |-> "float", f |-> f]
VStr(s) == [t |-> "str", s |-> s]
VList(xs) == [t |-> "list", v |-> xs]
VDict(es) == [t |-> "dict", v |-> es]          \* es: sequence of <<key code points, value>>
PFail == [ok |-> FALSE, v |-> VNull, p |-> 0]
POk(v, p) == [ok |-> TRUE, v |-> v, p |-> p]

MinI64 == IntMk(-1, NatShl(<<1>>, 63))
MaxI64 == IntMk(1, NatSub(NatShl(<<1>>, 63), <<1>>))
FitsI64(i) == IntCmp(i, MinI64) >= 0 /\ IntCmp(i, MaxI64) <= 0
FltNeg(f) == [f EXCEPT !.sg = 1]

\* equality of values up to the order of dict entries (keys are distinct)
RECURSIVE Match(_, _)
Match(a, b) ==
    /\ a.t = b.t
    /\ CASE a.t = "null" -> TRUE
         [] a.t = "int" -> IntEq(a.i, b.i)
         [] a.t = "float" -> a.f = b.f
         [] a.t = "str" -> a.s = b.s
         [] a.t = "list" -> Len(a.v) = Len(b.v) /\ \A j \in 1..Len(a.v) : Match(a.v[j], b.v[j])
         [] a.t = "dict" -> /\ Len(a.v) = Len(b.v)
                            /\ \A j \in 1..Len(a.v) : \E k \in 1..Len(b.v) :
                                   a.v[j][1] = b.v[k][1] /\ Match(a.v[j][2], b.v[k][2])

(* JSON text (RFC 8259).  Numbers: an integer without fraction and exponent that fits 64 bits is *)
(* an int, every other number the correctly rounded double of its exact decimal value.          *)
RECURSIVE SkipWs(_, _), SpanDig(_, _)
SkipWs(t, p) == IF p <= Len(t) /\ t[p] \in Blank THEN SkipWs(t, p + 1) ELSE p
SpanDig(t, p) == IF p <= Len(t) /\ IsDig(t[p]) THEN SpanDig(t, p + 1) ELSE p      \* first non-digit position
At(t, p) == IF p >= 1 /\ p <= Len(t) THEN t[p] ELSE -1
StartsWith(t, p, w) == p + Len(w) - 1 <= Len(t) /\ SubSeq(t, p, p + Len(w) - 1) = w
Hex4(t, p) == IF p + 3 <= Len(t) /\ \A k \in 0..3 : DigitVal(t[p + k]) < 16
              THEN 4096 * DigitVal(t[p]) + 256 * DigitVal(t[p + 1]) + 16 * DigitVal(t[p + 2]) + DigitVal(t[p + 3])
              ELSE -1
JNum(t, p) ==
    LET neg == At(t, p) = 45
        p1 == IF neg THEN p + 1 ELSE p
        p2 == SpanDig(t, p1)
        hasF == At(t, p2) = 46
        p3 == IF hasF THEN SpanDig(t, p2 + 1) ELSE p2
        hasE == At(t, p3) \in {101, 69}
        eneg == hasE /\ At(t, p3 + 1) = 45
        p4 == IF hasE THEN (IF At(t, p3 + 1) \in {43, 45} THEN p3 + 2 ELSE p3 + 1) ELSE p3
        p5 == IF hasE THEN SpanDig(t, p4) ELSE p3
        ip == SubSeq(t, p1, p2 - 1)
        fp == IF hasF THEN SubSeq(t, p2 + 1, p3 - 1) ELSE <<>>
        ep == IF hasE THEN SubSeq(t, p4, p5 - 1) ELSE <<>>
        iv == IntMk(IF neg THEN -1 ELSE 1, DigNat(ip))
        fv == FloatOf(ip, fp, eneg, ep)
    IN IF ip = <<>> \/ (hasF /\ fp = <<>>) \/ (hasE /\ ep = <<>>) THEN PFail
       ELSE IF ~hasF /\ ~hasE /\ FitsI64(iv) /\ ~(neg /\ iv.s = 0) THEN POk(VInt(iv), p5)
       ELSE POk(VFloat(IF neg THEN FltNeg(fv) ELSE fv), p5)

RECURSIVE JStr(_, _, _)
JStr(t, p, acc) ==
    IF p > Len(t) \/ Len(acc) < 0 THEN PFail
    ELSE IF t[p] = 34 THEN POk(VStr(acc), p + 1)
    ELSE IF t[p] # 92 THEN JStr(t, p + 1, Append(acc, t[p]))
    ELSE LET c == At(t, p + 1)
         IN CASE c \in {34, 92, 47} -> JStr(t, p + 2, Append(acc, c))
              [] c = 98 -> JStr(t, p + 2, Append(acc, 8))
              [] c = 102 -> JStr(t, p + 2, Append(acc, 12))
              [] c = 110 -> JStr(t, p + 2, Append(acc, 10))
              [] c = 114 -> JStr(t, p + 2, Append(acc, 13))
              [] c = 116 -> JStr(t, p + 2, Append(acc, 9))
              [] c = 117 ->
                   LET h == Hex4(t, p + 2)
                       lo == IF At(t, p + 6) = 92 /\ At(t, p + 7) = 117 THEN Hex4(t, p + 8) ELSE -1
                   IN IF h < 0 THEN PFail
                      ELSE IF h >= 55296 /\ h <= 56319
                           THEN (IF lo >= 56320 /\ lo <= 57343
                                 THEN JStr(t, p + 12, Append(acc, 65536 + (h - 55296) * 1024 + (lo - 56320)))
                                 ELSE PFail)
                      ELSE IF h >= 56320 /\ h <= 57343 THEN PFail
                      ELSE JStr(t, p + 6, Append(acc, h))
              [] OTHER -> PFail

RECURSIVE JValue(_, _), JElems(_, _, _), JMembers(_, _, _)
JValue(t, p0) ==
    LET p == SkipWs(t, p0)
        c == At(t, p)
    IN CASE c = 110 /\ StartsWith(t, p, <<110, 117, 108, 108>>) -> POk(VNull, p + 4)
         [] c = 34 -> JStr(t, p + 1, <<>>)
         [] c = 91 -> IF At(t, SkipWs(t, p + 1)) = 93 THEN POk(VList(<<>>), SkipWs(t, p + 1) + 1)
                      ELSE JElems(t, p + 1, <<>>)
         [] c = 123 -> IF At(t, SkipWs(t, p + 1)) = 125 THEN POk(VDict(<<>>), SkipWs(t, p + 1) + 1)
                       ELSE JMembers(t, p + 1, <<>>)
         [] c = 45 \/ IsDig(c) -> JNum(t, p)
         [] OTHER -> PFail
JElems(t, p, acc) ==
    LET r == JValue(t, p)
        q == SkipWs(t, r.p)
    IN IF ~r.ok THEN PFail
       ELSE IF At(t, q) = 44 THEN JElems(t, q + 1, Append(acc, r.v))
       ELSE IF At(t, q) = 93 THEN POk(VList(Append(acc, r.v)), q + 1)
       ELSE PFail
JMembers(t, p, acc) ==
    LET pk == SkipWs(t, p)
        k == IF At(t, pk) = 34 THEN JStr(t, pk + 1, <<>>) ELSE PFail
        pc == SkipWs(t, k.p)
        r == IF k.ok /\ At(t, pc) = 58 THEN JValue(t, pc + 1) ELSE PFail
        q == SkipWs(t, r.p)
    IN IF ~r.ok THEN PFail
       ELSE IF At(t, q) = 44 THEN JMembers(t, q + 1, Append(acc, <<k.v.s, r.v>>))
       ELSE IF At(t, q) = 125 THEN POk(VDict(Append(acc, <<k.v.s, r.v>>)), q + 1)
       ELSE PFail
\* the whole text is one value
JsonParse(t) == LET r == JValue(t, 1) IN IF r.ok /\ SkipWs(t, r.p) = Len(t) + 1 THEN r ELSE PFail

(* Noulith literal syntax: the tokens of Lexer!Lex; numbers may carry a minus sign in front, a *)
(* dict entry without value has the value null (this also reads the output of repr).         *)
IsMinus(tok) == tok.k = "Ident" /\ tok.s = <<45>>
KindAt(ts, p) == IF p >= 1 /\ p <= Len(ts) THEN ts[p].k ELSE "(end)"
LNum(tok, neg) ==
    CASE tok.k = "IntLit" -> VInt(IntMk(IF neg THEN -1 ELSE 1, tok.v))
      [] tok.k = "FloatLit" -> VFloat(IF neg THEN FltNeg(tok.f) ELSE tok.f)
RECURSIVE LValue(_, _), LElems(_, _, _), LMembers(_, _, _)
LValue(ts, p) ==
    LET k == KindAt(ts, p)
    IN CASE k = "Null" -> POk(VNull, p + 1)
         [] k \in {"IntLit", "FloatLit"} -> POk(LNum(ts[p], FALSE), p + 1)
         [] k = "Ident" -> IF IsMinus(ts[p]) /\ KindAt(ts, p + 1) \in {"IntLit", "FloatLit"}
                           THEN POk(LNum(ts[p + 1], TRUE), p + 2) ELSE PFail
         [] k = "StringLit" -> POk(VStr(ts[p].s), p + 1)
         [] k = "LeftBracket" -> IF KindAt(ts, p + 1) = "RightBracket" THEN POk(VList(<<>>), p + 2)
                                 ELSE LElems(ts, p + 1, <<>>)
         [] k = "LeftBrace" -> IF KindAt(ts, p + 1) = "RightBrace" THEN POk(VDict(<<>>), p + 2)
                               ELSE LMembers(ts, p + 1, <<>>)
         [] OTHER -> PFail
LElems(ts, p, acc) ==
    LET r == LValue(ts, p)
    IN IF ~r.ok THEN PFail
       ELSE IF KindAt(ts, r.p) = "Comma" THEN LElems(ts, r.p + 1, Append(acc, r.v))
       ELSE IF KindAt(ts, r.p) = "RightBracket" THEN POk(VList(Append(acc, r.v)), r.p + 1)
       ELSE PFail
LMembers(ts, p, acc) ==
    LET hasKey == KindAt(ts, p) = "StringLit"
        r == IF hasKey /\ KindAt(ts, p + 1) = "Colon" THEN LValue(ts, p + 2)
             ELSE IF hasKey THEN POk(VNull, p + 1) ELSE PFail
        ent == <<ts[p].s, r.v>>
    IN IF ~r.ok THEN PFail
       ELSE IF KindAt(ts, r.p) = "Comma" THEN LMembers(ts, r.p + 1, Append(acc, ent))
       ELSE IF KindAt(ts, r.p) = "RightBrace" THEN POk(VDict(Append(acc, ent)), r.p + 1)
       ELSE PFail
LitParse(t) ==
    LET fin == Lex(t)
        r == LValue(fin.toks, 1)
    IN IF fin.mode = "end" /\ r.ok /\ r.p = Len(fin.toks) + 1 THEN r ELSE PFail

(* A rendering of values that is JSON text and Noulith literal syntax at once: minimal escapes  *)
(* (only the quote and the backslash), floats from a table of (text, value) pairs.  Strings are  *)
(* required to be printable (no control characters).                                             *)
Printable(s) == \A j \in 1..Len(s) : s[j] >= 32 /\ s[j] # 127 /\ ~(s[j] >= 128 /\ s[j] <= 159)
QuoteStr(s) == <<34>> \o Flat([j \in 1..Len(s) |-> IF s[j] \in {34, 92} THEN <<92, s[j]>> ELSE <<s[j]>>]) \o <<34>>
RECURSIVE JoinR(_, _, _, _)
JoinR(parts, sep, j, acc) ==
    IF j > Len(parts) \/ Len(acc) < 0 THEN acc
    ELSE JoinR(parts, sep, j + 1, IF j = 1 THEN parts[j] ELSE acc \o sep \o parts[j])
Join(parts, sep) == JoinR(parts, sep, 1, <<>>)
\* ftab: sequence of <<float, decimal text>> pairs giving the text chosen for each float
FText(ftab, f) == ftab[CHOOSE j \in 1..Len(ftab) : ftab[j][1] = f][2]
RECURSIVE Render(_, _)
Render(v, ftab) ==
    CASE v.t = "null" -> <<110, 117, 108, 108>>
      [] v.t = "int" -> IntStr(v.i)
      [] v.t = "float" -> FText(ftab, v.f)
      [] v.t = "str" -> QuoteStr(v.s)
      [] v.t = "list" -> <<91>> \o Join([j \in 1..Len(v.v) |-> Render(v.v[j], ftab)], <<44>>) \o <<93>>
      [] v.t = "dict" -> <<123>> \o Join([j \in 1..Len(v.v) |->
                                            QuoteStr(v.v[j][1]) \o <<58>> \o Render(v.v[j][2], ftab)], <<44>>) \o <<125>>
=============================================================================
