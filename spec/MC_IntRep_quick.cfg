SPECIFICATION Spec
CONSTANT Depth = 1
INVARIANT RepIndependent
INVARIANT RepSound
VIEW View
CHECK_DEADLOCK FALSE
