------------------------------ MODULE NumTower ------------------------------
(***************************************************************************)
(* Noulith's numeric tower  int < rational < float < complex  as exact     *)
(* mathematics on lib/BigNum values.                                       *)
(*                                                                         *)
(* A number is one of                                                      *)
(*   [k |-> "int",   i |-> Int]                                            *)
(*   [k |-> "rat",   n |-> Int, d |-> Nat]      (any representation the    *)
(*                                               implementation reports;   *)
(*                                               RatOk says lowest terms)  *)
(*   [k |-> "float", f |-> Flt]   Flt == [c |-> "fin"|"zero"|"inf"|"nan",  *)
(*                                        sg |-> 0|1, m |-> Nat (odd),     *)
(*                                        e |-> native exponent]           *)
(*   [k |-> "complex", re |-> Flt, im |-> Flt]                             *)
(* The value of an operator depends on the VALUE of its operands only -    *)
(* never on whether the implementation stores an integer as a machine word *)
(* or as a big integer (C06), which is why the representation is not part  *)
(* of a number here: the trace validator receives the representation as a  *)
(* separate logged field and the specification ignores it.                 *)
(*                                                                         *)
(* An operator application evaluates to [out |-> "ok", r |-> number],      *)
(* [out |-> "throw"] or [out |-> "unspec"] (the properties leave the case  *)
(* open, e.g. `%` by zero or a negative shift count: judged by C14 only).  *)
(***************************************************************************)
EXTENDS BigNum, TLC

MkInt(i) == [k |-> "int", i |-> i]
MkRat(q) == [k |-> "rat", n |-> q.n, d |-> q.d]
Ok(r) == [out |-> "ok", r |-> r]
Throw == [out |-> "throw"]
Unspec == [out |-> "unspec"]
Bool(b) == MkInt(IF b THEN IntOne ELSE IntZero)

\* non-finite floats (same shape as the records the harness reports)
FltInf(sg) == [k |-> "float", f |-> [c |-> "inf", sg |-> sg, m |-> <<>>, e |-> 0]]
FltNaN == [k |-> "float", f |-> [c |-> "nan", sg |-> 0, m |-> <<>>, e |-> 0]]
\* x / 0 on the exact levels falls back to float infinity / NaN by the sign of x
DivByZero(sgn) == IF sgn = 0 THEN Ok(FltNaN) ELSE Ok(FltInf(IF sgn < 0 THEN 1 ELSE 0))

Level(x) == CASE x.k = "int" -> 1 [] x.k = "rat" -> 2 [] x.k = "float" -> 3 [] x.k = "complex" -> 4

Two == IntFromInt(2)
\* largest exponent / shift count the specification computes (native, keeps TLC fast)
MaxExp == 4096

(* ------------------------------ integers ------------------------------ *)
IntLcm(a, b) == IF a.s = 0 \/ b.s = 0 THEN IntZero
                ELSE IntMk(1, NatDivMod(NatMul(a.m, b.m), NatGcd(a.m, b.m))[1])

\* native primality by trial division, n < 2^30
RECURSIVE NoDivisorFrom(_, _)
NoDivisorFrom(n, f) == IF f * f > n THEN TRUE
                       ELSE IF n % f = 0 \/ n % (f + 2) = 0 THEN FALSE
                       ELSE NoDivisorFrom(n, f + 6)
IsPrimeSmall(n) == IF n < 2 THEN FALSE ELSE IF n < 4 THEN TRUE
                   ELSE IF n % 2 = 0 \/ n % 3 = 0 THEN FALSE
                   ELSE NoDivisorFrom(n, 5)

IntBin(op, a, b) ==
    CASE op = "+" -> Ok(MkInt(IntAdd(a, b)))
      [] op \in {"-", "subtract"} -> Ok(MkInt(IntSub(a, b)))
      [] op = "*" -> Ok(MkInt(IntMul(a, b)))
      [] op = "//" -> IF b.s = 0 THEN Throw ELSE Ok(MkInt(IntDivModFloor(a, b)[1]))
      [] op = "%%" -> IF b.s = 0 THEN Throw ELSE Ok(MkInt(IntDivModFloor(a, b)[2]))
      [] op = "%" -> IF b.s = 0 THEN Throw ELSE Ok(MkInt(IntDivRemTrunc(a, b)[2]))
      [] op = "/!" -> IF b.s = 0 THEN Throw
                      ELSE LET qr == IntDivModFloor(a, b)
                           IN IF qr[2].s # 0 THEN Throw ELSE Ok(MkInt(qr[1]))
      [] op = "/" -> IF b.s = 0 THEN DivByZero(a.s) ELSE Ok(MkRat(RatDivInt(a, b)))
      [] op = "^" -> IF ~IntFits(b) \/ NatToInt(b.m) > MaxExp THEN Unspec
                     ELSE IF b.s >= 0 THEN Ok(MkInt(IntPow(a, NatToInt(b.m))))
                     ELSE IF a.s = 0 THEN Unspec
                     ELSE Ok(MkRat(RatMk(IF a.s < 0 /\ NatToInt(b.m) % 2 = 1 THEN IntFromInt(-1) ELSE IntOne,
                                          NatPow(a.m, NatToInt(b.m)))))
      [] op = "gcd" -> Ok(MkInt(IntGcd(a, b)))
      [] op = "lcm" -> Ok(MkInt(IntLcm(a, b)))
      [] op = "&" -> Ok(MkInt(IntAnd(a, b)))
      [] op = "|" -> Ok(MkInt(IntOr(a, b)))
      [] op \in {"xor", "~"} -> Ok(MkInt(IntXor(a, b)))
      [] op = "<<" -> IF b.s < 0 \/ ~IntFits(b) \/ NatToInt(b.m) > MaxExp THEN Unspec
                      ELSE Ok(MkInt(IntShl(a, NatToInt(b.m))))
      [] op = ">>" -> IF b.s < 0 \/ ~IntFits(b) \/ NatToInt(b.m) > MaxExp THEN Unspec
                      ELSE Ok(MkInt(IntShr(a, NatToInt(b.m))))
      [] op = "==" -> Ok(Bool(IntCmp(a, b) = 0))
      [] op = "!=" -> Ok(Bool(IntCmp(a, b) # 0))
      [] op = "<" -> Ok(Bool(IntCmp(a, b) < 0))
      [] op = "<=" -> Ok(Bool(IntCmp(a, b) <= 0))
      [] op = ">" -> Ok(Bool(IntCmp(a, b) > 0))
      [] op = ">=" -> Ok(Bool(IntCmp(a, b) >= 0))
      [] op = "<=>" -> Ok(MkInt(IntFromInt(IntCmp(a, b))))
      [] op = ">=<" -> Ok(MkInt(IntFromInt(-IntCmp(a, b))))
      [] op = "min" -> Ok(MkInt(IF IntCmp(b, a) < 0 THEN b ELSE a))
      [] op = "max" -> Ok(MkInt(IF IntCmp(b, a) > 0 THEN b ELSE a))
      [] OTHER -> Unspec

IntUn(op, a) ==
    CASE op = "neg" -> Ok(MkInt(IntNeg(a)))
      [] op = "~" -> Ok(MkInt(IntNot(a)))
      [] op = "abs" -> Ok(MkInt(IntAbs(a)))
      [] op = "signum" -> Ok(MkInt(IntFromInt(a.s)))
      [] op = "even" -> Ok(Bool(~IntIsOdd(a)))
      [] op = "odd" -> Ok(Bool(IntIsOdd(a)))
      [] op = "is_prime" -> IF a.s <= 0 THEN Ok(Bool(FALSE))
                            ELSE IF IntFits(a) THEN Ok(Bool(IsPrimeSmall(NatToInt(a.m))))
                            ELSE Unspec
      [] OTHER -> Unspec

(* factorize is specified as a relation on the reported list of <<prime, exponent>> pairs  *)
(* (integers as BigNum): -1 first for a negative input, primes strictly increasing, each  *)
(* prime (< 2^30) prime by trial division, exponents positive, product equal to the input *)
RECURSIVE FactProduct(_, _, _)
FactProduct(fs, i, acc) ==
    IF i > Len(fs) \/ Len(acc.m) < 0 THEN acc
    ELSE FactProduct(fs, i + 1, IntMul(acc, IntPow(fs[i][1], NatToInt(fs[i][2].m))))
FactorizeOk(a, fs) ==
    /\ IntEq(FactProduct(fs, 1, IntOne), a) \/ (a.s = 0 /\ fs = <<>>)
    /\ a.s # 0 => \A i \in 1..Len(fs) :
         /\ fs[i][2].s = 1 /\ IntFits(fs[i][2])
         /\ IF i = 1 /\ a.s < 0 THEN IntEq(fs[i][1], IntFromInt(-1)) /\ IntEq(fs[i][2], IntOne)
            ELSE /\ fs[i][1].s = 1 /\ IntFits(fs[i][1]) /\ IsPrimeSmall(NatToInt(fs[i][1].m))
                 /\ (i > 1 /\ ~(i = 2 /\ a.s < 0)) => IntCmp(fs[i - 1][1], fs[i][1]) < 0

(* ------------------------------ rationals ----------------------------- *)
AsRat(x) == IF x.k = "int" THEN RatFromInt(x.i) ELSE [n |-> x.n, d |-> x.d]
\* the representation the implementation reports must be in lowest terms, positive denominator
RatOk(x) == x.k = "rat" => (x.d # <<>> /\ NatGcd(x.n.m, x.d) = <<1>>) \/ (x.n.s = 0 /\ x.d = <<1>>)

\* rational level (at least one operand a rational, none above); results stay rational
RatBin(op, p, q) ==
    CASE op = "+" -> Ok(MkRat(RatAdd(p, q)))
      [] op \in {"-", "subtract"} -> Ok(MkRat(RatSub(p, q)))
      [] op = "*" -> Ok(MkRat(RatMul(p, q)))
      [] op = "/" -> IF q.n.s = 0 THEN DivByZero(p.n.s) ELSE Ok(MkRat(RatDiv(p, q)))
      [] op = "//" -> IF q.n.s = 0 THEN Throw ELSE Ok(MkRat(RatFromInt(RatFloor(RatDiv(p, q)))))
      [] op = "%%" -> IF q.n.s = 0 THEN Throw
                      ELSE Ok(MkRat(RatSub(p, RatMul(q, RatFromInt(RatFloor(RatDiv(p, q)))))))
      [] op = "%" -> IF q.n.s = 0 THEN Throw
                     ELSE Ok(MkRat(RatSub(p, RatMul(q, RatFromInt(RatTrunc(RatDiv(p, q)))))))
      [] op = "==" -> Ok(Bool(RatCmp(p, q) = 0))
      [] op = "!=" -> Ok(Bool(RatCmp(p, q) # 0))
      [] op = "<" -> Ok(Bool(RatCmp(p, q) < 0))
      [] op = "<=" -> Ok(Bool(RatCmp(p, q) <= 0))
      [] op = ">" -> Ok(Bool(RatCmp(p, q) > 0))
      [] op = ">=" -> Ok(Bool(RatCmp(p, q) >= 0))
      [] op = "<=>" -> Ok(MkInt(IntFromInt(RatCmp(p, q))))
      [] op = ">=<" -> Ok(MkInt(IntFromInt(-RatCmp(p, q))))
      [] OTHER -> Unspec

\* rational base, integer exponent
RatPowInt(p, b) ==
    IF ~IntFits(b) \/ NatToInt(b.m) > MaxExp THEN Unspec
    ELSE IF b.s >= 0 THEN Ok(MkRat(RatPow(p, NatToInt(b.m))))
    ELSE IF p.n.s = 0 THEN Unspec
    ELSE LET r == RatPow(p, NatToInt(b.m))
         IN Ok(MkRat(RatMk(IntMk(r.n.s, r.d), r.n.m)))

(* ------------------------------- floats ------------------------------- *)
(* The specification does not re-implement IEEE-754.  It knows the exact    *)
(* dyadic value of a reported finite float and states correct rounding as a *)
(* relation (CorrectlyRounded): the reported float is the double nearest to *)
(* the exact rational, ties to even.                                        *)
FltIsFinite(f) == f.c \in {"fin", "zero"}
FltToRat(f) == IF f.c = "zero" THEN RatFromInt(IntZero)
               ELSE DyadToRat(IntMk(IF f.sg = 1 THEN -1 ELSE 1, f.m), f.e)
\* 2^k as a rational for native k of either sign
Pow2Rat(k) == IF k >= 0 THEN RatFromInt(IntMk(1, NatShl(<<1>>, k))) ELSE RatMk(IntOne, NatShl(<<1>>, -k))
RatAbs(p) == [n |-> IntAbs(p.n), d |-> p.d]
\* binade exponent E of a positive rational: 2^E <= p < 2^(E+1), from bit lengths and one comparison
RatBinade(p) == LET e0 == NatBitLen(p.n.m) - NatBitLen(p.d)
                IN IF RatCmp(p, Pow2Rat(e0)) >= 0 THEN e0 ELSE e0 - 1
MaxFinite == DyadToRat(IntMk(1, NatSub(NatShl(<<1>>, 53), <<1>>)), 971)
\* overflow threshold: values >= 2^1024 - 2^970 round to infinity
OverflowAt == DyadToRat(IntMk(1, NatSub(NatShl(<<1>>, 54), <<1>>)), 970)
\* f is the correctly rounded double of the exact rational p (round to nearest, ties to even)
CorrectlyRounded(f, p) ==
    IF p.n.s = 0 THEN f.c = "zero"
    ELSE LET ap == RatAbs(p)
             sg == IF p.n.s < 0 THEN 1 ELSE 0
         IN IF RatCmp(ap, OverflowAt) >= 0 THEN f.c = "inf" /\ f.sg = sg
            ELSE LET E == RatBinade(ap)
                     \* unit in the last place for this binade (subnormals share 2^-1074)
                     ue == IF E - 52 < -1074 THEN -1074 ELSE E - 52
                     ulp == Pow2Rat(ue)
                     \* scaled == ap / ulp ; nearest integer n with ties to even
                     scaled == RatDiv(ap, ulp)
                     fl == RatFloor(scaled)
                     frac2 == RatCmp(RatSub(scaled, RatFromInt(fl)), RatMk(IntOne, <<2>>))
                     n == IF frac2 > 0 \/ (frac2 = 0 /\ IntIsOdd(fl)) THEN IntAdd(fl, IntOne) ELSE fl
                 IN IF n.s = 0 THEN f.c = "zero" /\ f.sg = sg
                    ELSE /\ f.c = "fin" /\ f.sg = sg
                         /\ RatCmp(FltToRat([f EXCEPT !.sg = 0]), RatMul(RatFromInt(n), ulp)) = 0
\* the double nearest to a non-zero exact rational p, as a value: class + signed exact rational
RoundRat(p) ==
    LET ap == RatAbs(p)
        neg == p.n.s < 0
    IN IF RatCmp(ap, OverflowAt) >= 0 THEN [c |-> "inf", neg |-> neg, v |-> RatFromInt(IntZero)]
       ELSE LET E == RatBinade(ap)
                ue == IF E - 52 < -1074 THEN -1074 ELSE E - 52
                ulp == Pow2Rat(ue)
                scaled == RatDiv(ap, ulp)
                fl == RatFloor(scaled)
                frac2 == RatCmp(RatSub(scaled, RatFromInt(fl)), RatMk(IntOne, <<2>>))
                n == IF frac2 > 0 \/ (frac2 = 0 /\ IntIsOdd(fl)) THEN IntAdd(fl, IntOne) ELSE fl
                mag == RatMul(RatFromInt(n), ulp)
            IN IF n.s = 0 THEN [c |-> "zero", neg |-> neg, v |-> RatFromInt(IntZero)]
               ELSE [c |-> "fin", neg |-> neg, v |-> IF neg THEN RatNeg(mag) ELSE mag]
\* f is the double an exact rational rounds to (zero results: class only, the sign of a zero is not judged)
RoundsTo(f, p) == IF p.n.s = 0 THEN f.c = "zero" ELSE CorrectlyRounded(f, p)
(* Float division family on finite operands with a non-zero divisor, as the *)
(* standard library defines them:  x / y  correctly rounded;  x % y  (fmod) *)
(* is EXACT: x - trunc(x/y)*y computed without rounding, sign of x;         *)
(* x %% y (rem_euclid) = r if r >= 0 else round(r + |y|);                   *)
(* x // y (div_euclid) = q if r >= 0 else round(q -+ 1) by the sign of y,   *)
(* where q = trunc(round(x / y)).                                           *)
FRemExact(x, y) == RatSub(x, RatMul(RatFromInt(RatTrunc(RatDiv(x, y))), y))
FDivFamilyOk(op, f, x, y) ==
    LET r == FRemExact(x, y)
    IN CASE op = "/" -> RoundsTo(f, RatDiv(x, y))
         [] op = "%" -> RoundsTo(f, r)
         [] op = "%%" -> IF r.n.s < 0 THEN RoundsTo(f, RatAdd(r, RatAbs(y))) ELSE RoundsTo(f, r)
         [] op = "//" ->
              IF x.n.s = 0 THEN f.c = "zero"
              ELSE LET q0 == RoundRat(RatDiv(x, y))
                   IN IF q0.c = "inf" THEN TRUE
                      ELSE LET qt == RatFromInt(RatTrunc(q0.v))
                           IN IF r.n.s < 0
                              THEN RoundsTo(f, IF y.n.s > 0 THEN RatSub(qt, RatFromInt(IntOne))
                                                            ELSE RatAdd(qt, RatFromInt(IntOne)))
                              ELSE RoundsTo(f, qt)
(* ----------------------- extended reals and order ---------------------- *)
IsReal(x) == x.k \in {"int", "rat", "float"}
IsNaN(x) == x.k = "float" /\ x.f.c = "nan"
\* -1 / 0 / 1, or 2 when incomparable (a NaN is involved)
ExtCmp(x, y) ==
    IF IsNaN(x) \/ IsNaN(y) THEN 2
    ELSE LET xi == x.k = "float" /\ x.f.c = "inf"
             yi == y.k = "float" /\ y.f.c = "inf"
             sx == IF x.f.sg = 1 THEN -1 ELSE 1
             sy == IF y.f.sg = 1 THEN -1 ELSE 1
         IN IF xi /\ yi THEN (IF sx = sy THEN 0 ELSE IF sx < sy THEN -1 ELSE 1)
            ELSE IF xi THEN sx
            ELSE IF yi THEN -sy
            ELSE RatCmp(IF x.k = "float" THEN FltToRat(x.f) ELSE AsRat(x),
                        IF y.k = "float" THEN FltToRat(y.f) ELSE AsRat(y))
FZero == [k |-> "float", f |-> [c |-> "zero", sg |-> 0, m |-> <<>>, e |-> 0]]
Re(x) == IF x.k = "complex" THEN [k |-> "float", f |-> x.re] ELSE x
Im(x) == IF x.k = "complex" THEN [k |-> "float", f |-> x.im] ELSE FZero
\* complex numbers compare as (re, im) pairs
NumCmp(x, y) == LET c == ExtCmp(Re(x), Re(y)) IN IF c # 0 THEN c ELSE ExtCmp(Im(x), Im(y))
NumEq(x, y) == ExtCmp(Re(x), Re(y)) = 0 /\ ExtCmp(Im(x), Im(y)) = 0

CmpOps == {"==", "!=", "<", "<=", ">", ">=", "<=>", ">=<", "min", "max"}
CmpBin(op, x, y) ==
    LET c == NumCmp(x, y)
    IN CASE op = "==" -> Ok(Bool(NumEq(x, y)))
         [] op = "!=" -> Ok(Bool(~NumEq(x, y)))
         [] c = 2 -> Throw
         [] op = "<" -> Ok(Bool(c < 0))
         [] op = "<=" -> Ok(Bool(c <= 0))
         [] op = ">" -> Ok(Bool(c > 0))
         [] op = ">=" -> Ok(Bool(c >= 0))
         [] op = "<=>" -> Ok(MkInt(IntFromInt(c)))
         [] op = ">=<" -> Ok(MkInt(IntFromInt(-c)))
         [] op = "min" -> Ok(IF NumCmp(y, x) < 0 THEN y ELSE x)
         [] op = "max" -> Ok(IF NumCmp(y, x) > 0 THEN y ELSE x)

(* ----------------------------- dispatch ------------------------------- *)
Exact(x) == x.k \in {"int", "rat"}
NumBin(op, x, y) ==
    IF op \in CmpOps THEN CmpBin(op, x, y)
    ELSE IF x.k = "int" /\ y.k = "int" THEN IntBin(op, x.i, y.i)
    ELSE IF Exact(x) /\ Exact(y) THEN
         (IF op = "^" THEN (IF y.k = "int" THEN RatPowInt(AsRat(x), y.i) ELSE Unspec)
          ELSE RatBin(op, AsRat(x), AsRat(y)))
    ELSE Unspec

NumUn(op, x) ==
    CASE x.k = "int" /\ op \in {"neg", "~", "abs", "signum", "even", "odd", "is_prime"} -> IntUn(op, x.i)
      [] x.k = "int" /\ op \in {"floor", "ceil", "round", "int", "numerator"} -> Ok(x)
      [] x.k = "int" /\ op = "denominator" -> Ok(MkInt(IntOne))
      [] x.k = "int" /\ op = "rational" -> Ok(MkRat(RatFromInt(x.i)))
      [] x.k = "rat" /\ op = "neg" -> Ok(MkRat(RatNeg(AsRat(x))))
      [] x.k = "rat" /\ op = "abs" -> Ok(MkRat(RatAbs(AsRat(x))))
      [] x.k = "rat" /\ op = "signum" -> Ok(MkInt(IntFromInt(x.n.s)))
      [] x.k = "rat" /\ op = "floor" -> Ok(MkInt(RatFloor(AsRat(x))))
      [] x.k = "rat" /\ op = "ceil" -> Ok(MkInt(RatCeil(AsRat(x))))
      [] x.k = "rat" /\ op = "round" -> Ok(MkInt(RatRound(AsRat(x))))
      [] x.k = "rat" /\ op = "int" -> Ok(MkInt(RatTrunc(AsRat(x))))
      [] x.k = "rat" /\ op = "numerator" -> Ok(MkInt(RatMk(x.n, x.d).n))
      [] x.k = "rat" /\ op = "denominator" -> Ok(MkInt(IntMk(1, RatMk(x.n, x.d).d)))
      [] x.k = "rat" /\ op = "rational" -> Ok(x)
      [] x.k = "float" /\ FltIsFinite(x.f) /\ op = "floor" -> Ok(MkInt(RatFloor(FltToRat(x.f))))
      [] x.k = "float" /\ FltIsFinite(x.f) /\ op = "ceil" -> Ok(MkInt(RatCeil(FltToRat(x.f))))
      [] x.k = "float" /\ FltIsFinite(x.f) /\ op = "round" -> Ok(MkInt(RatRound(FltToRat(x.f))))
      [] x.k = "float" /\ FltIsFinite(x.f) /\ op = "int" -> Ok(MkInt(RatTrunc(FltToRat(x.f))))
      [] x.k = "float" /\ FltIsFinite(x.f) /\ op = "rational" -> Ok(MkRat(FltToRat(x.f)))
      [] x.k = "float" /\ op = "float" -> Ok(x)
      [] OTHER -> Unspec

(* ----------------------------- comparison ------------------------------ *)
SameNum(e, o) ==
    /\ e.k = o.k
    /\ CASE e.k = "int" -> IntEq(e.i, o.i)
         [] e.k = "rat" -> RatOk(o) /\ RatCmp(AsRat(e), AsRat(o)) = 0
         [] e.k = "float" -> e.f = o.f
         [] e.k = "complex" -> e.re = o.re /\ e.im = o.im

=============================================================================
