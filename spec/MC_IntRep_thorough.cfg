SPECIFICATION Spec
CONSTANT Depth = 2
INVARIANT RepIndependent
INVARIANT RepSound
VIEW View
CHECK_DEADLOCK FALSE
