SPECIFICATION Spec
CONSTANT Depth = 5
CONSTANT NoDropLhs = TRUE
INVARIANT InPlaceWhenUnique
INVARIANT CopyBounded
INVARIANT RepeatIsFree
INVARIANT RcSane
VIEW View
CHECK_DEADLOCK FALSE
