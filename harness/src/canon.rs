// Canonical projection of noulith values to JSON (DESIGN §2.1).
//
// Integers leave the implementation through num-bigint's decimal rendering (third-party,
// trusted), never through the arithmetic under test.  Floats leave as their IEEE bit pattern.
// Dict entries are sorted by the canonical text of the key, so HashMap order is never observed.

use noulith::nnum::NNum;
use noulith::{Assoc, Func, Obj, Seq};
use serde_json::{json, Value};

pub const STREAM_LIMIT: usize = 48;

pub fn canon_num(n: &NNum) -> Value {
    match n {
        NNum::Int(i) => {
            let dbg = format!("{:?}", i);
            json!({"t": "int", "v": i.to_bigint().to_string(), "big": dbg.starts_with("Big")})
        }
        NNum::Rational(r) => {
            json!({"t": "rat", "n": r.numer().to_string(), "d": r.denom().to_string()})
        }
        NNum::Float(f) => json!({"t": "float", "bits": f.to_bits().to_string()}),
        NNum::Complex(c) => {
            json!({"t": "complex", "re": c.re.to_bits().to_string(), "im": c.im.to_bits().to_string()})
        }
    }
}

pub fn canon(o: &Obj) -> Value {
    canon_d(o, 0)
}

fn canon_d(o: &Obj, depth: usize) -> Value {
    if depth > 40 {
        return json!({"t": "deep"});
    }
    match o {
        Obj::Null => json!({"t": "null"}),
        Obj::Num(n) => canon_num(n),
        Obj::Seq(s) => match s {
            Seq::String(s) => json!({"t": "str", "v": s.as_str()}),
            Seq::List(v) => {
                json!({"t": "list", "v": v.iter().map(|x| canon_d(x, depth + 1)).collect::<Vec<_>>()})
            }
            Seq::Dict(m, def) => {
                let mut ents: Vec<(String, Value, Value)> = m
                    .iter()
                    .map(|(k, v)| {
                        let ko = noulith::key_to_obj(k.clone());
                        let kc = canon_d(&ko, depth + 1);
                        (kc.to_string(), kc, canon_d(v, depth + 1))
                    })
                    .collect();
                ents.sort_by(|a, b| a.0.cmp(&b.0));
                let ents: Vec<Value> = ents.into_iter().map(|(_, k, v)| json!([k, v])).collect();
                match def {
                    Some(d) => json!({"t": "dict", "v": ents, "def": canon_d(d, depth + 1)}),
                    None => json!({"t": "dict", "v": ents}),
                }
            }
            Seq::Vector(v) => {
                json!({"t": "vec", "v": v.iter().map(canon_num).collect::<Vec<_>>()})
            }
            Seq::Bytes(b) => json!({"t": "bytes", "v": b.iter().map(|x| *x as u64).collect::<Vec<_>>()}),
            Seq::Stream(st) => {
                // iterate a clone; never trust len()
                let mut it = st.clone_box();
                let mut out = Vec::new();
                let mut more = false;
                let mut err = false;
                loop {
                    if out.len() >= STREAM_LIMIT {
                        more = it.next().is_some();
                        break;
                    }
                    match it.next() {
                        None => break,
                        Some(Ok(x)) => out.push(canon_d(&x, depth + 1)),
                        Some(Err(_)) => {
                            err = true;
                            break;
                        }
                    }
                }
                json!({"t": "stream", "v": out, "more": more, "err": err})
            }
        },
        Obj::Func(f, p) => {
            let kind = match f {
                Func::Builtin(_) => "builtin",
                Func::Closure(_) => "closure",
                Func::Type(_) => "type",
                _ => "other",
            };
            json!({"t": "func", "kind": kind, "disp": format!("{}", o),
                   "prec": p.0.to_bits().to_string(),
                   "assoc": match p.1 { Assoc::Left => "L", Assoc::Right => "R" }})
        }
        Obj::Instance(s, fields) => {
            json!({"t": "inst", "name": s.name.as_str(), "sid": s.id,
                   "v": fields.iter().map(|x| canon_d(x, depth + 1)).collect::<Vec<_>>()})
        }
    }
}
