// nvh — noulith verification harness.
//
//   nvh worker                       one interpreter process: cases on stdin, step results on stdout
//   nvh run [-j N] [-t MS]           supervisor: cases on stdin (NDJSON), results on stdout (NDJSON);
//                                    runs N workers, turns hangs into "timeout" and crashes into
//                                    "abort" outcomes and restarts the worker (DESIGN §2.1)
//
// A case is {"id":…, "kind":"eval"|"lex"|"parse", "steps":[{"src":"…","obs":["x",…]}…]}.
// kind=eval: one fresh Env per case (allow_redeclaration=false like simple_eval), in-memory
// output sink, each step is one top-level statement evaluated REPL-style.  After each step the
// outcome, the printed text, the bytes requested from the allocator during evaluate() and the
// canonical projection of every variable named in "obs" are recorded.

mod canon;

use noulith::{evaluate, initialize, lex, parse, Env, NErr, Obj, Token, TopEnv, WriteMaybeExtractable};
use serde_json::{json, Value};
use std::alloc::{GlobalAlloc, Layout, System};
use std::cell::RefCell;
use std::io::{self, BufRead, BufReader, Write};
use std::panic::{catch_unwind, AssertUnwindSafe};
use std::process::{Child, Command, Stdio};
use std::rc::Rc;
use std::sync::atomic::{AtomicU64, Ordering};
use std::sync::mpsc;
use std::sync::{Arc, Mutex};
use std::time::Duration;

// ---------------------------------------------------------------- counting allocator (C02)
struct Counting;
static ALLOCATED: AtomicU64 = AtomicU64::new(0);
unsafe impl GlobalAlloc for Counting {
    unsafe fn alloc(&self, l: Layout) -> *mut u8 {
        ALLOCATED.fetch_add(l.size() as u64, Ordering::Relaxed);
        unsafe { System.alloc(l) }
    }
    unsafe fn dealloc(&self, p: *mut u8, l: Layout) {
        unsafe { System.dealloc(p, l) }
    }
    unsafe fn realloc(&self, p: *mut u8, l: Layout, new_size: usize) -> *mut u8 {
        // a growing realloc requests new_size fresh bytes in the worst case
        if new_size > l.size() {
            ALLOCATED.fetch_add((new_size - l.size()) as u64, Ordering::Relaxed);
        }
        unsafe { System.realloc(p, l, new_size) }
    }
}
#[global_allocator]
static GLOBAL: Counting = Counting;

// ---------------------------------------------------------------- output sink
#[derive(Clone)]
struct Sink(Arc<Mutex<Vec<u8>>>);
impl Write for Sink {
    fn write(&mut self, buf: &[u8]) -> io::Result<usize> {
        self.0.lock().unwrap().extend_from_slice(buf);
        Ok(buf.len())
    }
    fn flush(&mut self) -> io::Result<()> {
        Ok(())
    }
}
impl WriteMaybeExtractable for Sink {}

thread_local! {
    static LAST_PANIC: RefCell<String> = RefCell::new(String::new());
}

fn token_json(t: &Token) -> Value {
    match t {
        Token::Invalid(s) => json!({"k": "Invalid", "msg": s}),
        Token::IntLit(n) => json!({"k": "IntLit", "v": n.to_string()}),
        Token::RatLit(r) => json!({"k": "RatLit", "n": r.numer().to_string(), "d": r.denom().to_string()}),
        Token::FloatLit(f) => json!({"k": "FloatLit", "bits": f.to_bits().to_string()}),
        Token::ImaginaryFloatLit(f) => json!({"k": "ImaginaryFloatLit", "bits": f.to_bits().to_string()}),
        Token::StringLit(s) => json!({"k": "StringLit", "v": s.as_str()}),
        Token::BytesLit(b) => json!({"k": "BytesLit", "v": b.iter().map(|x| *x as u64).collect::<Vec<_>>()}),
        Token::FormatString(s) => json!({"k": "FormatString", "v": s.as_str()}),
        Token::Ident(s) => json!({"k": "Ident", "v": s}),
        other => {
            let d = format!("{:?}", other);
            let k = d.split(|c| c == '(' || c == ' ' || c == '{').next().unwrap_or("").to_string();
            json!({"k": k, "dbg": d})
        }
    }
}

fn err_json(e: &NErr) -> (String, Value) {
    match e {
        NErr::Throw(o, _) => ("throw".into(), json!({"ev": canon::canon(o), "e": format!("{}", o)})),
        NErr::Break(n, v) => (
            "ctl".into(),
            json!({"ctl": "break", "n": n, "ev": v.as_ref().map(canon::canon)}),
        ),
        NErr::Continue(n) => ("ctl".into(), json!({"ctl": "continue", "n": n})),
        NErr::Return(v) => ("ctl".into(), json!({"ctl": "return", "ev": canon::canon(v)})),
    }
}

fn run_case(case: &Value, out: &mut dyn Write) {
    let kind = case.get("kind").and_then(|k| k.as_str()).unwrap_or("eval");
    let steps = case.get("steps").and_then(|s| s.as_array()).cloned().unwrap_or_default();
    match kind {
        "lex" => {
            for st in steps {
                let src = st.get("src").and_then(|s| s.as_str()).unwrap_or("").to_string();
                let r = catch_unwind(AssertUnwindSafe(|| {
                    let toks = lex(&src);
                    toks.iter().map(|t| token_json(&t.token)).collect::<Vec<_>>()
                }));
                let v = match r {
                    Ok(toks) => json!({"o": "ok", "tokens": toks}),
                    Err(_) => json!({"o": "panic", "e": LAST_PANIC.with(|p| p.borrow().clone())}),
                };
                writeln!(out, "S {}", v).unwrap();
                out.flush().unwrap();
            }
        }
        "parse" => {
            for st in steps {
                let src = st.get("src").and_then(|s| s.as_str()).unwrap_or("").to_string();
                let r = catch_unwind(AssertUnwindSafe(|| match parse(&src) {
                    Ok(Some(_)) => json!({"o": "ok"}),
                    Ok(None) => json!({"o": "empty"}),
                    Err(e) => json!({"o": "parse_error", "e": e.0}),
                }));
                let v = match r {
                    Ok(v) => v,
                    Err(_) => json!({"o": "panic", "e": LAST_PANIC.with(|p| p.borrow().clone())}),
                };
                writeln!(out, "S {}", v).unwrap();
                out.flush().unwrap();
            }
        }
        _ => {
            let sink = Sink(Arc::new(Mutex::new(Vec::new())));
            let mut env = Env::new(
                TopEnv {
                    backrefs: Vec::new(),
                    input: Box::new(io::empty()),
                    output: Box::new(sink.clone()),
                },
                false,
            );
            initialize(&mut env);
            let env = Rc::new(RefCell::new(env));
            let case_obs: Vec<Value> = case.get("obs").and_then(|o| o.as_array()).cloned().unwrap_or_default();
            let mut dead = false;
            for st in steps {
                if dead {
                    writeln!(out, "S {}", json!({"o": "skipped"})).unwrap();
                    continue;
                }
                let src = st.get("src").and_then(|s| s.as_str()).unwrap_or("").to_string();
                sink.0.lock().unwrap().clear();
                let before = ALLOCATED.load(Ordering::Relaxed);
                let mut after = before;
                let r = catch_unwind(AssertUnwindSafe(|| match parse(&src) {
                    Err(e) => json!({"o": "parse_error", "e": e.0}),
                    Ok(None) => json!({"o": "empty"}),
                    Ok(Some(expr)) => {
                        let b = ALLOCATED.load(Ordering::Relaxed);
                        let res = evaluate(&env, &expr);
                        let a = ALLOCATED.load(Ordering::Relaxed);
                        after = before + (a - b);
                        match res {
                            Ok(v) => {
                                let c = canon::canon(&v);
                                let disp = match &v {
                                    Obj::Func(..) => String::new(),
                                    _ => String::new(),
                                };
                                let _ = disp;
                                json!({"o": "ok", "v": c})
                            }
                            Err(e) => {
                                let (o, mut j) = err_json(&e);
                                j["o"] = json!(o);
                                j
                            }
                        }
                    }
                }));
                let mut v = match r {
                    Ok(v) => v,
                    Err(_) => {
                        dead = true;
                        json!({"o": "panic", "e": LAST_PANIC.with(|p| p.borrow().clone())})
                    }
                };
                v["alloc"] = json!(after - before);
                v["out"] = json!(String::from_utf8_lossy(&sink.0.lock().unwrap()).to_string());
                if !dead {
                    let obs = st.get("obs").and_then(|o| o.as_array()).cloned().unwrap_or_else(|| case_obs.clone());
                    let mut ov = Vec::new();
                    for name in obs {
                        let name = name.as_str().unwrap_or("").to_string();
                        let r = catch_unwind(AssertUnwindSafe(|| match parse(&name) {
                            Ok(Some(e)) => match evaluate(&env, &e) {
                                Ok(v) => canon::canon(&v),
                                Err(_) => json!({"t": "undef"}),
                            },
                            _ => json!({"t": "undef"}),
                        }));
                        match r {
                            Ok(c) => ov.push(c),
                            Err(_) => {
                                dead = true;
                                ov.push(json!({"t": "panic", "e": LAST_PANIC.with(|p| p.borrow().clone())}));
                            }
                        }
                    }
                    v["obs"] = json!(ov);
                }
                writeln!(out, "S {}", v).unwrap();
                out.flush().unwrap();
            }
        }
    }
}

fn worker() {
    std::panic::set_hook(Box::new(|info| {
        let msg = if let Some(s) = info.payload().downcast_ref::<&str>() {
            s.to_string()
        } else if let Some(s) = info.payload().downcast_ref::<String>() {
            s.clone()
        } else {
            "<non-string panic>".to_string()
        };
        let loc = info.location().map(|l| format!("{}:{}", l.file(), l.line())).unwrap_or_default();
        LAST_PANIC.with(|p| *p.borrow_mut() = format!("{} @ {}", msg, loc));
    }));
    // big stack: deep-but-legal recursion must not abort the worker
    let h = std::thread::Builder::new()
        .stack_size(512 << 20)
        .spawn(|| {
            let stdin = io::stdin();
            let stdout = io::stdout();
            let mut out = io::BufWriter::new(stdout.lock());
            for line in stdin.lock().lines() {
                let line = match line {
                    Ok(l) => l,
                    Err(_) => break,
                };
                if line.trim().is_empty() {
                    continue;
                }
                let case: Value = match serde_json::from_str(&line) {
                    Ok(v) => v,
                    Err(e) => {
                        writeln!(out, "X bad case json: {}", e).unwrap();
                        out.flush().unwrap();
                        continue;
                    }
                };
                run_case(&case, &mut out);
                writeln!(out, "E").unwrap();
                out.flush().unwrap();
            }
        })
        .unwrap();
    h.join().unwrap();
}

struct W {
    child: Child,
    rx: mpsc::Receiver<Option<String>>,
}

fn spawn_worker() -> W {
    let exe = std::env::current_exe().unwrap();
    let mut child = Command::new(exe)
        .arg("worker")
        .stdin(Stdio::piped())
        .stdout(Stdio::piped())
        .stderr(Stdio::null())
        .spawn()
        .expect("spawn worker");
    let stdout = child.stdout.take().unwrap();
    let (tx, rx) = mpsc::channel();
    std::thread::spawn(move || {
        let r = BufReader::new(stdout);
        for line in r.lines() {
            match line {
                Ok(l) => {
                    if tx.send(Some(l)).is_err() {
                        return;
                    }
                }
                Err(_) => break,
            }
        }
        let _ = tx.send(None);
    });
    W { child, rx }
}

fn supervisor(jobs: usize, timeout_ms: u64) {
    let stdin = io::stdin();
    let input = Arc::new(Mutex::new(stdin.lock().lines().map(|l| l.unwrap()).collect::<Vec<_>>().into_iter()));
    let output = Arc::new(Mutex::new(io::BufWriter::new(io::stdout())));
    let mut hs = Vec::new();
    for _ in 0..jobs {
        let input = input.clone();
        let output = output.clone();
        hs.push(std::thread::spawn(move || {
            let mut w = spawn_worker();
            loop {
                let line = {
                    let mut g = input.lock().unwrap();
                    g.next()
                };
                let line = match line {
                    Some(l) => l,
                    None => break,
                };
                if line.trim().is_empty() {
                    continue;
                }
                let case: Value = match serde_json::from_str(&line) {
                    Ok(v) => v,
                    Err(_) => continue,
                };
                let id = case.get("id").cloned().unwrap_or(Value::Null);
                let tmo = case.get("timeout_ms").and_then(|t| t.as_u64()).unwrap_or(timeout_ms);
                let mut steps: Vec<Value> = Vec::new();
                let mut fatal: Option<&str> = None;
                {
                    let sin = w.child.stdin.as_mut().unwrap();
                    if writeln!(sin, "{}", line).is_err() || sin.flush().is_err() {
                        fatal = Some("abort");
                    }
                }
                while fatal.is_none() {
                    match w.rx.recv_timeout(Duration::from_millis(tmo)) {
                        Ok(Some(l)) => {
                            if l == "E" {
                                break;
                            } else if let Some(rest) = l.strip_prefix("S ") {
                                steps.push(serde_json::from_str(rest).unwrap_or(Value::Null));
                            }
                        }
                        Ok(None) => fatal = Some("abort"),
                        Err(mpsc::RecvTimeoutError::Timeout) => fatal = Some("timeout"),
                        Err(mpsc::RecvTimeoutError::Disconnected) => fatal = Some("abort"),
                    }
                }
                if let Some(f) = fatal {
                    let _ = w.child.kill();
                    let _ = w.child.wait();
                    w = spawn_worker();
                    steps.push(json!({"o": f}));
                }
                let res = json!({"id": id, "steps": steps});
                let mut o = output.lock().unwrap();
                writeln!(o, "{}", res).unwrap();
            }
            let _ = w.child.kill();
            let _ = w.child.wait();
        }));
    }
    for h in hs {
        h.join().unwrap();
    }
    output.lock().unwrap().flush().unwrap();
}

fn main() {
    let args: Vec<String> = std::env::args().collect();
    match args.get(1).map(|s| s.as_str()) {
        Some("worker") => worker(),
        Some("run") => {
            let mut jobs = 8usize;
            let mut tmo = 5000u64;
            let mut i = 2;
            while i < args.len() {
                match args[i].as_str() {
                    "-j" => {
                        jobs = args[i + 1].parse().unwrap();
                        i += 2;
                    }
                    "-t" => {
                        tmo = args[i + 1].parse().unwrap();
                        i += 2;
                    }
                    _ => i += 1,
                }
            }
            supervisor(jobs, tmo);
        }
        _ => {
            eprintln!("usage: nvh worker | nvh run [-j N] [-t MS]");
            std::process::exit(2);
        }
    }
}
