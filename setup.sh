#!/bin/sh
# Build the harness against /repo's working tree, offline.  Idempotent.
set -e
cd "$(dirname "$0")/harness"
export CARGO_NET_OFFLINE=true
cargo build --offline 2>&1 | tail -3
test -x target/debug/nvh
mkdir -p ../evidence ../replays
echo "setup ok"
